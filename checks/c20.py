"""C20 — arguments outside an operation's domain are rejected loudly, never answered.

The table entry point x argument class is typed in from the docstrings and the property
text (not inferred from the code).  Out-of-domain cell: the call must raise (any Exception
subclass) and leave every array argument bit-identical.  In-domain boundary cell: no
exception and a finite result.
"""
from __future__ import annotations

import numpy as np
from scipy import sparse as sp

from checks.common import comps, to_sparse
from qmc import gen as G
from qmc import oracle as O
from qmc.loader import load
from qmc.run import call, fail

ID = "C20"
LEVEL = "model_checking"
RULE = (
    "the table (entry point x argument class) is the space; every cell is executed once; non-trivial = every cell "
    "(each has its own verdict); distinct = cell name"
)
BOUNDS = {"quick": "complete table (see coverage.cells_by_class)", "thorough": "complete table under both import styles (flat and package)"}
WALL_BUDGET = {"quick": 300, "thorough": 600}
ASSUMPTIONS = ["which argument classes are outside which entry point's domain is taken from the docstrings and the property text"]


def Q(A):
    return G.to_quat(np.asarray(A, float))


def gen(m, n, s=0):
    f = G.Fill(5, stream=100 * m + 10 * n + s)
    return f.quat(m, n, bits=3, lo=-12, hi=12) + (np.arange(m * n * 4).reshape(m, n, 4) % 3 == 0) * 0.125


def herm(n):
    A = gen(n, n)
    A = 0.5 * (A + O.qH(A))
    for i in range(n):
        A[i, i, 1:] = 0
        A[i, i, 0] = 3.0 + i
    return A


def nonherm(n):
    A = herm(n)
    A[0, n - 1, 1] += 1.0
    A[n - 1, 0, 2] += 0.5
    return A


def nonherm_component(n, comp):
    """Hermitian matrix plus an O(1) defect that lives in ONE quaternion component only
    (comp 0: asymmetric scalar part; comp 1..3: symmetric i/j/k part, or a non-real diagonal entry for n = 1)."""
    A = herm(n)
    if n == 1:
        A[0, 0, max(comp, 1)] += 1.0
        return A
    if comp == 0:
        A[0, n - 1, 0] += 1.0
    else:
        A[0, n - 1, comp] += 0.75
        A[n - 1, 0, comp] += 0.75  # symmetric vector part: violates antisymmetry of that component only
    return A


def spd_tall(m, n):
    """well conditioned m x n (m>=n): identity block plus small fill."""
    A = gen(m, n) * 0.05
    for i in range(n):
        A[i, i, 0] += 1.0
    return A


def build_cells(lib):
    u, sv, q, t = lib.utils, lib.solver, lib.qslst, lib.tensor
    LU, E, TR, HS, SC, SVD = lib.LU, lib.eigen, lib.tridiag, lib.hess, lib.schur, lib.qsvd
    real3 = np.arange(9.0).reshape(3, 3) + np.eye(3)
    realsym = real3 + real3.T
    cplx3 = real3 + 1j * real3.T
    cells = []  # (name, cls, kind['out'|'in'], thunk returning (fn, args tuple, kwargs))

    def out(name, cls, fn, *a, **k):
        cells.append((name, cls, "out", fn, a, k))

    def inn(name, cls, fn, *a, **k):
        cells.append((name, cls, "in", fn, a, k))

    # ---------------- norms
    for nm, f in (("induced_matrix_norm_1", u.induced_matrix_norm_1), ("induced_matrix_norm_inf", u.induced_matrix_norm_inf), ("spectral_norm_2", u.spectral_norm_2)):
        out(nm, "real_dtype", f, real3.copy())
        out(nm, "complex_dtype", f, cplx3.copy())
        out(nm, "sparse", f, to_sparse(lib, gen(3, 3)))
        for shp in ((1, 1), (1, 3), (3, 1)):
            inn(nm, f"boundary_{shp[0]}x{shp[1]}", f, Q(gen(*shp)))
        inn(nm, "rank0", f, Q(np.zeros((2, 3, 4))))
    for o in ("nuc", 0, -1, 3, "Fro"):
        out("matrix_norm", f"unknown_option_{o!r}", u.matrix_norm, Q(gen(2, 3)), o)
    for o in (1, 2, np.inf):
        out("matrix_norm", f"sparse_ord_{o}", u.matrix_norm, to_sparse(lib, gen(3, 3)), o)
        out("matrix_norm", f"real_dtype_ord_{o}", u.matrix_norm, real3.copy(), o)
    for o in (None, "fro", 1, 2, np.inf, "inf"):
        inn("matrix_norm", f"boundary_1x1_ord_{o!r}", u.matrix_norm, Q(gen(1, 1)), o)
        inn("matrix_norm", f"boundary_1x3_ord_{o!r}", u.matrix_norm, Q(gen(1, 3)), o)
    # ---------------- embeddings
    out("real_expand", "real_dtype", u.real_expand, real3.copy())
    out("real_expand", "complex_dtype", u.real_expand, cplx3.copy())
    out("real_expand", "sparse", u.real_expand, to_sparse(lib, gen(2, 2)))
    inn("real_expand", "boundary_1x1", u.real_expand, Q(gen(1, 1)))
    inn("real_expand", "boundary_1x3", u.real_expand, Q(gen(1, 3)))
    out("real_contract", "inconsistent_shape", u.real_contract, np.zeros((8, 8)), 3, 2)
    out("real_contract", "inconsistent_shape_b", u.real_contract, np.zeros((8, 12)), 2, 2)
    inn("real_contract", "boundary_1x1", u.real_contract, np.eye(4), 1, 1)
    out("quaternion_to_complex_adjoint", "non_square", u.quaternion_to_complex_adjoint, Q(gen(2, 3)))
    out("quaternion_to_complex_adjoint", "real_dtype", u.quaternion_to_complex_adjoint, real3.copy())
    out("quaternion_to_complex_adjoint", "unknown_option_axis", u.quaternion_to_complex_adjoint, Q(gen(2, 2)), "y")
    inn("quaternion_to_complex_adjoint", "boundary_1x1", u.quaternion_to_complex_adjoint, Q(gen(1, 1)))
    # ---------------- hermitian / det / rank / null space
    out("ishermitian", "non_square", u.ishermitian, Q(gen(2, 3)))
    inn("ishermitian", "boundary_1x1", u.ishermitian, Q(gen(1, 1)))
    inn("ishermitian", "rank0", u.ishermitian, Q(np.zeros((2, 2, 4))))
    for d in ("Dieudonne", "Moore", "Study"):
        out("det", f"non_square_{d}", u.det, Q(gen(2, 3)), d)
    out("det", "unknown_option", u.det, Q(herm(2)), "Cayley")
    out("det", "not_implemented_Study", u.det, Q(herm(2)), "Study")
    out("det", "unknown_option_case", u.det, Q(herm(2)), "moore")
    out("det", "non_hermitian_Moore", u.det, Q(nonherm(3)), "Moore")
    out("det", "complex_dtype", u.det, cplx3.copy(), "Dieudonne")
    inn("det", "boundary_1x1_Dieudonne", u.det, Q(gen(1, 1)), "Dieudonne")
    inn("det", "boundary_1x1_Moore", u.det, Q(herm(1)), "Moore")
    inn("det", "rank0_Dieudonne", u.det, Q(np.zeros((2, 2, 4))), "Dieudonne")
    inn("det", "rank0_Moore", u.det, Q(np.zeros((2, 2, 4))), "Moore")
    out("rank", "complex_dtype", u.rank, cplx3.copy())
    for shp in ((1, 1), (1, 3), (3, 1)):
        inn("rank", f"boundary_{shp[0]}x{shp[1]}", u.rank, Q(gen(*shp)))
    inn("rank", "rank0", u.rank, Q(np.zeros((3, 2, 4))))
    for f_, nm in ((u.quat_null_space, "quat_null_space"), (u.quat_kernel, "quat_kernel")):
        out(nm, "unknown_option_side", f_, Q(gen(2, 3)), "both")
        out(nm, "unknown_option_side_case", f_, Q(gen(2, 3)), "Right")
        for shp in ((1, 1), (1, 3), (3, 1)):
            for side in ("right", "left"):
                inn(nm, f"boundary_{shp[0]}x{shp[1]}_{side}", f_, Q(gen(*shp)), side)
        inn(nm, "rank0", f_, Q(np.zeros((2, 3, 4))))
    # ---------------- power iterations
    out("power_iteration", "non_square", u.power_iteration, Q(gen(2, 3)))
    inn("power_iteration", "boundary_1x1", u.power_iteration, Q(herm(1)), return_eigenvalue=True)
    inn("power_iteration", "rank0", u.power_iteration, Q(np.zeros((2, 2, 4))), return_eigenvalue=True)
    out("power_iteration_nonhermitian", "non_square", u.power_iteration_nonhermitian, Q(gen(2, 3)))
    out("power_iteration_nonhermitian", "unknown_option_axis", u.power_iteration_nonhermitian, Q(gen(2, 2)), subfield_axis="y")
    out("power_iteration_nonhermitian", "unknown_option_axis_hermitian_input", u.power_iteration_nonhermitian, Q(herm(2)), subfield_axis="y")
    out("power_iteration_nonhermitian", "unknown_option_format", u.power_iteration_nonhermitian, Q(gen(2, 2)), eigenvalue_format="polar")
    inn("power_iteration_nonhermitian", "boundary_1x1", u.power_iteration_nonhermitian, Q(gen(1, 1)))
    inn("power_iteration_nonhermitian", "hermitian_2x2", u.power_iteration_nonhermitian, Q(herm(2)))
    # ---------------- LU family
    for nm, f in (("quaternion_lu", LU.quaternion_lu), ("quaternion_modulus", LU.quaternion_modulus), ("quaternion_triu", LU.quaternion_triu), ("quaternion_tril", LU.quaternion_tril)):
        out(nm, "real_dtype", f, real3.copy())
        out(nm, "complex_dtype", f, cplx3.copy())
        out(nm, "sparse", f, to_sparse(lib, gen(3, 3)))
        for shp in ((1, 1), (1, 3), (3, 1)):
            inn(nm, f"boundary_{shp[0]}x{shp[1]}", f, Q(gen(*shp)))
    out("quaternion_lu", "singular_zero_column", LU.quaternion_lu, Q(np.concatenate([np.zeros((3, 1, 4)), gen(3, 2)], axis=1)))
    # ---------------- eigen / tridiagonalize / hessenberg
    for nm, f in (("quaternion_eigendecomposition", E.quaternion_eigendecomposition), ("quaternion_eigenvalues", E.quaternion_eigenvalues), ("quaternion_eigenvectors", E.quaternion_eigenvectors)):
        out(nm, "non_square", f, Q(gen(2, 3)))
        out(nm, "non_hermitian", f, Q(nonherm(3)))
        out(nm, "non_hermitian_2x2", f, Q(nonherm(2)))
        for comp in range(4):
            for nn in (1, 2, 3):
                if nn == 1 and comp == 0:
                    continue
                out(nm, f"non_hermitian_component{comp}_n{nn}", f, Q(nonherm_component(nn, comp)))
        inn(nm, "boundary_1x1", f, Q(herm(1)))
        inn(nm, "rank0", f, Q(np.zeros((3, 3, 4))))
    out("tridiagonalize", "non_square", TR.tridiagonalize, Q(gen(2, 3)))
    out("tridiagonalize", "non_hermitian", TR.tridiagonalize, Q(nonherm(3)))
    out("tridiagonalize", "too_small_1x1", TR.tridiagonalize, Q(herm(1)))
    for comp in range(4):
        for nn in (2, 3):
            out("tridiagonalize", f"non_hermitian_component{comp}_n{nn}", TR.tridiagonalize, Q(nonherm_component(nn, comp)))
            out("det", f"non_hermitian_Moore_component{comp}_n{nn}", u.det, Q(nonherm_component(nn, comp)), "Moore")
    inn("tridiagonalize", "boundary_2x2", TR.tridiagonalize, Q(herm(2)))
    inn("tridiagonalize", "rank0", TR.tridiagonalize, Q(np.zeros((3, 3, 4))))
    out("hessenbergize", "non_square", HS.hessenbergize, Q(gen(2, 3)))
    out("hessenbergize", "not_2d", HS.hessenbergize, Q(gen(3, 1))[:, 0])
    inn("hessenbergize", "boundary_1x1", HS.hessenbergize, Q(gen(1, 1)))
    inn("hessenbergize", "rank0", HS.hessenbergize, Q(np.zeros((3, 3, 4))))
    # ---------------- Schur
    schurs = [
        ("quaternion_schur", SC.quaternion_schur, {}),
        ("quaternion_schur_pure", SC.quaternion_schur_pure, {}),
        ("quaternion_schur_pure_implicit", SC.quaternion_schur_pure_implicit, {}),
        ("quaternion_schur_unified", SC.quaternion_schur_unified, {}),
        ("quaternion_schur_experimental", SC.quaternion_schur_experimental, {}),
    ]
    for nm, f, kw in schurs:
        out(nm, "non_square", f, Q(gen(2, 3)), max_iter=5)
        out(nm, "not_2d", f, Q(gen(3, 1))[:, 0], max_iter=5)
        inn(nm, "boundary_1x1", f, Q(gen(1, 1)), max_iter=5)
        inn(nm, "boundary_2x2", f, Q(gen(2, 2)), max_iter=20)
        inn(nm, "rank0", f, Q(np.zeros((3, 3, 4))), max_iter=5)
    out("quaternion_schur", "unknown_option_shift", SC.quaternion_schur, Q(gen(3, 3)), max_iter=5, shift="bogus")
    out("quaternion_schur_pure", "unknown_option_shift_mode", SC.quaternion_schur_pure, Q(gen(3, 3)), max_iter=5, shift_mode="bogus")
    out("quaternion_schur_pure_implicit", "unknown_option_shift_mode", SC.quaternion_schur_pure_implicit, Q(gen(3, 3)), max_iter=5, shift_mode="bogus")
    out("quaternion_schur_unified", "unknown_option_variant", SC.quaternion_schur_unified, Q(gen(3, 3)), variant="bogus", max_iter=5)
    out("quaternion_schur_experimental", "unknown_option_variant", SC.quaternion_schur_experimental, Q(gen(3, 3)), variant="bogus", max_iter=5)
    for v in ("none", "rayleigh", "implicit", "aed", "ds"):
        inn("quaternion_schur_unified", f"variant_{v}_2x2", SC.quaternion_schur_unified, Q(gen(2, 2)), variant=v, max_iter=10)
    for v in ("aed_windowed", "francis_ds"):
        inn("quaternion_schur_experimental", f"variant_{v}_2x2", SC.quaternion_schur_experimental, Q(gen(2, 2)), variant=v, max_iter=10)
    for v in ("rayleigh", "wilkinson", "double"):
        inn("quaternion_schur", f"shift_{v}_2x2", SC.quaternion_schur, Q(gen(2, 2)), shift=v, max_iter=10)
    # ---------------- Q-SVD family
    for nm, f, extra in (("classical_qsvd_full", SVD.classical_qsvd_full, ()), ("classical_qsvd", SVD.classical_qsvd, (1,)), ("qr_qua", SVD.qr_qua, ()), ("rand_qsvd", SVD.rand_qsvd, (1,)), ("pass_eff_qsvd", SVD.pass_eff_qsvd, (1,))):
        if nm in ("classical_qsvd_full", "classical_qsvd", "qr_qua"):
            out(nm, "complex_dtype", f, cplx3.copy(), *extra)
            out(nm, "sparse", f, to_sparse(lib, gen(3, 3)), *extra)
        for shp in ((1, 1), (1, 3), (3, 1)):
            inn(nm, f"boundary_{shp[0]}x{shp[1]}", f, Q(gen(*shp)), *extra)
        inn(nm, "rank0", f, Q(np.zeros((3, 2, 4))), *extra)
    out("classical_qsvd", "rank_above_min_dim", SVD.classical_qsvd, Q(gen(3, 2)), 3)
    out("classical_qsvd", "rank_zero", SVD.classical_qsvd, Q(gen(3, 2)), 0)
    out("classical_qsvd", "rank_negative", SVD.classical_qsvd, Q(gen(3, 2)), -1)
    # ---------------- tensor
    T = Q(np.arange(2 * 3 * 4 * 4, dtype=float).reshape(2, 3, 4, 4))
    for mode in (3, -1, "0"):
        out("tensor_unfold", f"unknown_option_mode_{mode!r}", t.tensor_unfold, T.copy(), mode)
    out("tensor_unfold", "order_2", t.tensor_unfold, Q(gen(2, 3)), 0)
    out("tensor_unfold", "order_4", t.tensor_unfold, T.reshape(2, 3, 2, 2), 0)
    out("tensor_unfold", "real_dtype", t.tensor_unfold, np.zeros((2, 3, 4)), 0)
    for mode in range(3):
        inn("tensor_unfold", f"boundary_1x1x1_mode{mode}", t.tensor_unfold, T[:1, :1, :1].copy(), mode)
        M = t.tensor_unfold(T, mode)
        out("tensor_fold", f"inconsistent_shape_mode{mode}", t.tensor_fold, M.copy(), mode, ((3, 2, 4), (3, 2, 4), (2, 2, 4))[mode])
        out("tensor_fold", f"inconsistent_shape_b_mode{mode}", t.tensor_fold, M.copy(), mode, (2, 3, 5))
        out("tensor_fold", f"wrong_mode_for_matrix_mode{mode}", t.tensor_fold, M.copy(), (mode + 1) % 3, (2, 3, 4))
        inn("tensor_fold", f"in_domain_mode{mode}", t.tensor_fold, M.copy(), mode, (2, 3, 4))
    out("tensor_fold", "unknown_option_mode", t.tensor_fold, t.tensor_unfold(T, 0), 3, (2, 3, 4))
    for mode in range(3):
        dims = (2, 3, 4)
        lead = dims[mode]
        out("tensor_fold", f"matrix_not_2d_3d_mode{mode}", t.tensor_fold, np.moveaxis(T, mode, 0).copy(), mode, dims)
        out("tensor_fold", f"matrix_not_2d_4d_mode{mode}", t.tensor_fold, np.moveaxis(T, mode, 0).reshape(lead, 2, -1, 1).copy(), mode, dims)
        out("tensor_fold", f"matrix_transposed_mode{mode}", t.tensor_fold, t.tensor_unfold(T, mode).T.copy(), mode, dims)
    out("tensor_fold", "matrix_1d", t.tensor_fold, T.reshape(-1)[:4].copy(), 2, (1, 1, 4))
    # ---------------- qslst
    img = np.arange(3 * 4 * 4, dtype=float).reshape(3, 4, 4) / 10
    psf = np.array([[0.0, 0.25, 0.0], [0.25, 0.0, 0.25], [0.0, 0.25, 0.0]])
    out("rgb_to_quat", "wrong_channels", q.rgb_to_quat, np.zeros((3, 4, 4)))
    out("rgb_to_quat", "wrong_rank", q.rgb_to_quat, np.zeros((3, 4)))
    inn("rgb_to_quat", "boundary_1x1", q.rgb_to_quat, np.zeros((1, 1, 3)))
    out("quat_to_rgb", "wrong_channels", q.quat_to_rgb, np.zeros((3, 4, 3)))
    out("quat_to_rgb", "wrong_rank", q.quat_to_rgb, np.zeros((3, 4)))
    inn("quat_to_rgb", "boundary_1x1", q.quat_to_rgb, np.zeros((1, 1, 4)))
    for b in ("reflect", "zero", "Periodic"):
        out("apply_blur_fft", f"unknown_option_boundary_{b}", q.apply_blur_fft, img.copy(), psf.copy(), b)
        out("qslst_restore_fft", f"unknown_option_boundary_{b}", q.qslst_restore_fft, img.copy(), psf.copy(), 0.1, b)
    inn("apply_blur_fft", "boundary_1x1", q.apply_blur_fft, np.ones((1, 1, 4)), np.ones((1, 1)))
    inn("qslst_restore_fft", "boundary_1x1", q.qslst_restore_fft, np.ones((1, 1, 4)), np.ones((1, 1)), 0.5)
    out("qslst_restore_matrix", "operator_wrong_size", q.qslst_restore_matrix, img.copy(), np.eye(11), 0.1)
    out("qslst_restore_matrix", "operator_not_square", q.qslst_restore_matrix, img.copy(), np.ones((12, 11)), 0.1)
    inn("qslst_restore_matrix", "boundary_1x1", q.qslst_restore_matrix, np.ones((1, 1, 4)), np.eye(1), 0.5)
    # documented domain: any real N x N operator of any rank, any lam >= 0 - incl. rank-deficient operators with lam far below the rounding level of A^T A
    _Adup = np.arange(144, dtype=float).reshape(12, 12) % 7 - 3.0
    _Adup[:, 5] = _Adup[:, 2]
    for lam_ in (0.0, 1e-300, 1e-30, 1e-20, 1e-12, 0.1):
        inn("qslst_restore_matrix", f"rank_deficient_operator_lam={lam_:g}", q.qslst_restore_matrix, img.copy(), _Adup.copy(), lam_)
        inn("qslst_restore_matrix", f"zero_operator_lam={lam_:g}", q.qslst_restore_matrix, img.copy(), np.zeros((12, 12)), lam_)
    inn("qslst_restore_matrix", "integer_operator", q.qslst_restore_matrix, img.copy(), np.eye(12, dtype=np.int64) * 2, 0.5)
    # ---------------- solvers
    A33 = spd_tall(3, 3)
    b3 = gen(3, 1, 7)
    out("QGMRESSolver.solve", "non_square", lambda A, b: sv.QGMRESSolver().solve(A, b), Q(gen(3, 2)), Q(b3))
    out("QGMRESSolver.solve", "non_square_wide", lambda A, b: sv.QGMRESSolver().solve(A, b), Q(gen(2, 3)), Q(gen(2, 1)))
    out("QGMRESSolver.solve", "non_square_left_lu", lambda A, b: sv.QGMRESSolver(preconditioner="left_lu").solve(A, b), Q(gen(3, 2)), Q(b3))
    out("QGMRESSolver.solve", "non_square_wide_left_lu", lambda A, b: sv.QGMRESSolver(preconditioner="left_lu").solve(A, b), Q(gen(3, 5)), Q(b3))
    out("QGMRESSolver.solve", "mismatched_rhs_short", lambda A, b: sv.QGMRESSolver().solve(A, b), Q(A33), Q(gen(2, 1)))
    out("QGMRESSolver.solve", "mismatched_rhs_scalar", lambda A, b: sv.QGMRESSolver().solve(A, b), Q(A33), Q(gen(1, 1)))
    out("QGMRESSolver.solve", "mismatched_rhs_long", lambda A, b: sv.QGMRESSolver().solve(A, b), Q(A33), Q(gen(4, 1)))
    for prec_ in (None, "none", "left_lu"):
        for rows_ in (1, 2, 4, 6, 9):  # matrix is 3 x 3: every other row count of the right-hand side is a shape-coupled mismatch
            out("QGMRESSolver.solve", f"mismatched_rhs_rows={rows_}_prec={prec_}", (lambda p_: (lambda A, b: sv.QGMRESSolver(preconditioner=p_).solve(A, b)))(prec_), Q(A33), Q(gen(rows_, 1, 5)))
        out("QGMRESSolver.solve", f"mismatched_rhs_two_columns_prec={prec_}", (lambda p_: (lambda A, b: sv.QGMRESSolver(preconditioner=p_).solve(A, b)))(prec_), Q(A33), Q(gen(3, 2, 5)))
    # the same shape-coupled mismatches with the component-tuple container for b and / or A (the fallback branch of the converters)
    for prec_ in (None, "left_lu"):
        for rows_ in (1, 2, 4, 6):
            btuple = tuple(_c for _c in np.moveaxis(gen(rows_, 1, 5), -1, 0))
            out("QGMRESSolver.solve", f"mismatched_rhs_tuple_rows={rows_}_prec={prec_}", (lambda p_: (lambda A, b: sv.QGMRESSolver(preconditioner=p_).solve(A, b)))(prec_), Q(A33), btuple)
            if prec_ is None:
                Atuple = tuple(_c for _c in np.moveaxis(A33, -1, 0))
                out("QGMRESSolver.solve", f"mismatched_rhs_tupleA_rows={rows_}", (lambda A, b: sv.QGMRESSolver().solve(A, b)), Atuple, Q(gen(rows_, 1, 5)))
                out("QGMRESSolver.solve", f"mismatched_rhs_tupleA_tupleb_rows={rows_}", (lambda A, b: sv.QGMRESSolver().solve(A, b)), Atuple, btuple)
    # the same out-of-domain arguments with an exactly ZERO right-hand side (a "b = 0 => x = 0" shortcut must not come before the guards)
    for prec_ in (None, "none", "left_lu"):
        for rows_ in (1, 2, 4, 6):
            out("QGMRESSolver.solve", f"mismatched_zero_rhs_rows={rows_}_prec={prec_}", (lambda p_: (lambda A, b: sv.QGMRESSolver(preconditioner=p_).solve(A, b)))(prec_), Q(A33), Q(np.zeros((rows_, 1, 4))))
    for nm_ in ("ilu", "jacobi", "right_lu"):
        out("QGMRESSolver.solve", f"unknown_option_preconditioner={nm_}_zero_rhs", (lambda p_: (lambda A, b: sv.QGMRESSolver(preconditioner=p_).solve(A, b)))(nm_), Q(A33), Q(np.zeros((3, 1, 4))))
    out("QGMRESSolver.solve", "non_square_zero_rhs", lambda A, b: sv.QGMRESSolver().solve(A, b), Q(gen(3, 2)), Q(np.zeros((3, 1, 4))))
    out("QGMRESSolver.solve", "complex_dtype", lambda A, b: sv.QGMRESSolver().solve(A, b), cplx3.copy(), np.ones((3, 1), dtype=complex))
    out("QGMRESSolver.solve", "unknown_option_preconditioner", lambda A, b: sv.QGMRESSolver(preconditioner="ilu").solve(A, b), Q(A33), Q(b3))
    inn("QGMRESSolver.solve", "boundary_1x1", lambda A, b: sv.QGMRESSolver().solve(A, b), Q(spd_tall(1, 1)), Q(gen(1, 1, 3)))
    inn("QGMRESSolver.solve", "boundary_1x1_left_lu", lambda A, b: sv.QGMRESSolver(preconditioner="left_lu").solve(A, b), Q(spd_tall(1, 1)), Q(gen(1, 1, 3)))
    inn("QGMRESSolver.solve", "zero_rhs", lambda A, b: sv.QGMRESSolver().solve(A, b), Q(A33), Q(np.zeros((3, 1, 4))))
    inn("QGMRESSolver.solve", "sparse_A", lambda A, b: sv.QGMRESSolver().solve(A, b), to_sparse(lib, A33), Q(b3))
    for nm, mk in (("NewtonSchulzPseudoinverse", lambda: sv.NewtonSchulzPseudoinverse(max_iter=30)), ("HigherOrderNewtonSchulzPseudoinverse", lambda: sv.HigherOrderNewtonSchulzPseudoinverse(max_iter=15))):
        for shp in ((1, 1), (1, 3), (3, 1)):
            inn(nm + ".compute", f"boundary_{shp[0]}x{shp[1]}", (lambda mk_: (lambda A: mk_().compute(A)))(mk), Q(gen(*shp)))
        inn(nm + ".compute", "rank0", (lambda mk_: (lambda A: mk_().compute(A)))(mk), Q(np.zeros((2, 3, 4))))
    rsp = lambda **k: sv.RandomizedSketchProjectPseudoinverse(block_size=2, max_iter=30, seed=1, **k)
    out("RSP.compute_column_variant", "wrong_orientation_wide", lambda A: rsp().compute_column_variant(A), Q(gen(2, 3)))
    out("RSP.compute_row_variant", "wrong_orientation_tall", lambda A: rsp().compute_row_variant(A), Q(gen(3, 2)))
    out("RSP.compute_column_variant", "unknown_option_column_solver", lambda A: rsp(column_solver="lu").compute_column_variant(A), Q(spd_tall(3, 2)))
    inn("RSP.compute_column_variant", "boundary_1x1", lambda A: rsp().compute_column_variant(A), Q(spd_tall(1, 1)))
    inn("RSP.compute_column_variant", "boundary_3x1", lambda A: rsp().compute_column_variant(A), Q(spd_tall(3, 1)))
    inn("RSP.compute_row_variant", "boundary_1x1", lambda A: rsp().compute_row_variant(A), Q(spd_tall(1, 1)))
    inn("RSP.compute_row_variant", "boundary_1x3", lambda A: rsp().compute_row_variant(A), Q(O.qH(spd_tall(3, 1))))
    inn("RSP.compute", "boundary_1x3", lambda A: rsp().compute(A), Q(O.qH(spd_tall(3, 1))))
    inn("RSP.compute", "boundary_3x1", lambda A: rsp().compute(A), Q(spd_tall(3, 1)))
    out("HybridRSPNewtonSchulz.compute", "wrong_orientation_wide", lambda A: sv.HybridRSPNewtonSchulz(r=1, max_iter=20, seed=1).compute(A), Q(gen(2, 3)))
    inn("HybridRSPNewtonSchulz.compute", "boundary_1x1", lambda A: sv.HybridRSPNewtonSchulz(r=1, max_iter=20, seed=1).compute(A), Q(spd_tall(1, 1)))
    inn("HybridRSPNewtonSchulz.compute", "boundary_3x1", lambda A: sv.HybridRSPNewtonSchulz(r=1, max_iter=20, seed=1).compute(A), Q(spd_tall(3, 1)))
    out("CGNEQSolver.compute", "wrong_orientation_wide", lambda A: sv.CGNEQSolver(max_iter=20).compute(A), Q(gen(2, 3)))
    # ---------------- near-miss spellings of every enumerated string option: the empty string, a prefix, a suffix, another letter case,
    # padding, a doubled value and the concatenation of all valid values must all be rejected (a membership test written as a substring
    # test, startswith, lower() or `in "ab"` instead of `in ("a", "b")` accepts some of them)
    def near_misses(valid):
        outl = []
        for v in valid:
            for cand in ("", v[:1], v[:-1], v[1:], v.upper(), v.capitalize(), v + " ", " " + v, v + v, v + "s", "-" + v):
                if cand not in valid and cand not in outl:
                    outl.append(cand)
        for cand in ("".join(valid), ",".join(valid), " ".join(valid)):
            if cand not in valid and cand not in outl:
                outl.append(cand)
        return outl

    T_ = Q(np.arange(2 * 3 * 4 * 4, dtype=float).reshape(2, 3, 4, 4))
    imgq, psfq = np.arange(3 * 4 * 4, dtype=float).reshape(3, 4, 4) / 7, np.array([[0.0, 0.2, 0.0], [0.3, 0.1, 0.2], [0.0, 0.2, 0.0]])
    option_sites = [
        ("matrix_norm.ord", ("fro", "F", "inf"), lambda o: u.matrix_norm(Q(gen(2, 3)), o)),
        ("matrix_norm.ord@1x3", ("fro", "F", "inf"), lambda o: u.matrix_norm(Q(gen(1, 3)), o)),
        ("quaternion_to_complex_adjoint.axis", ("x",), lambda o: u.quaternion_to_complex_adjoint(Q(gen(2, 2)), o)),
        ("det.d", ("Dieudonne", "Dieudonné", "Moore"), lambda o: u.det(Q(herm(2)), o)),
        ("quat_null_space.side", ("right", "left"), lambda o: u.quat_null_space(Q(gen(2, 3)), o)),
        ("quat_kernel.side", ("right", "left"), lambda o: u.quat_kernel(Q(gen(2, 3)), o)),
        ("power_iteration_nonhermitian.eigenvalue_format", ("complex", "quaternion"), lambda o: u.power_iteration_nonhermitian(Q(gen(2, 2)), eigenvalue_format=o)),
        ("power_iteration_nonhermitian.subfield_axis", ("x",), lambda o: u.power_iteration_nonhermitian(Q(gen(2, 2)), subfield_axis=o)),
        ("quaternion_schur.shift", ("rayleigh", "wilkinson", "double"), lambda o: SC.quaternion_schur(Q(gen(3, 3)), max_iter=5, shift=o)),
        ("quaternion_schur_pure.shift_mode", ("none", "rayleigh"), lambda o: SC.quaternion_schur_pure(Q(gen(3, 3)), max_iter=5, shift_mode=o)),
        ("quaternion_schur_pure_implicit.shift_mode", ("none", "rayleigh"), lambda o: SC.quaternion_schur_pure_implicit(Q(gen(3, 3)), max_iter=5, shift_mode=o)),
        ("quaternion_schur_unified.variant", ("none", "rayleigh", "implicit", "aed", "ds"), lambda o: SC.quaternion_schur_unified(Q(gen(3, 3)), variant=o, max_iter=5)),
        ("quaternion_schur_experimental.variant", ("aed_windowed", "francis_ds"), lambda o: SC.quaternion_schur_experimental(Q(gen(3, 3)), variant=o, max_iter=5)),
        ("apply_blur_fft.boundary", ("periodic",), lambda o: q.apply_blur_fft(imgq.copy(), psfq.copy(), o)),
        ("qslst_restore_fft.boundary", ("periodic",), lambda o: q.qslst_restore_fft(imgq.copy(), psfq.copy(), 0.1, o)),
        ("QGMRESSolver.preconditioner", ("none", "left_lu"), lambda o: sv.QGMRESSolver(preconditioner=o).solve(Q(A33), Q(b3))),
        ("RSP.column_solver", ("qr", "spd"), lambda o: rsp(column_solver=o).compute_column_variant(Q(spd_tall(3, 2)))),
        ("HybridRSPNewtonSchulz.column_solver", ("qr", "spd"), lambda o: sv.HybridRSPNewtonSchulz(r=1, max_iter=5, seed=1, column_solver=o).compute(Q(spd_tall(3, 2)))),
    ]
    # these two options are matched case-insensitively by design (explicit .lower() in the constructors), and a falsy
    # preconditioner ('' like None) means "none": such spellings are in-domain there and are not cells
    CASE_INSENSITIVE = {"QGMRESSolver.preconditioner", "RSP.column_solver", "HybridRSPNewtonSchulz.column_solver"}
    for site, valid, fcall in option_sites:
        for cand in near_misses(valid):
            if site in CASE_INSENSITIVE and (cand.lower() in valid or (cand == "" and site == "QGMRESSolver.preconditioner")):
                continue
            out(site, f"unknown_option_nearmiss_{cand!r}", fcall, cand)
        for v in valid:
            inn(site, f"valid_option_{v!r}", fcall, v)
    # ---------------- Householder helpers: shape-coupled argument pairs (same element count, different shape), zero and non-zero targets
    e3c, e3r, e3f = np.array([[1.0], [0.0], [0.0]]), np.array([[1.0, 0.0, 0.0]]), np.array([1.0, 0.0, 0.0])
    a3c, a3r, a3f = Q(gen(3, 1)), Q(gen(1, 3)), Q(gen(3, 1))[:, 0]
    for hn, hf in (("householder_matrix", TR.householder_matrix), ("householder_vector", TR.householder_vector)):
        for an, a_ in (("col", a3c), ("row", a3r), ("flat", a3f)):
            for vn, v_ in (("col", e3c), ("row", e3r), ("flat", e3f)):
                for zn, z in (("unit", 1.0), ("zero", 0.0)):
                    if hn == "householder_vector" and zn == "zero":
                        continue  # a zero target is outside householder_vector's own domain; not a shape question
                    if an == vn:
                        if an == "flat":  # the form every caller in the library uses; (n,1)/(1,n) pairs are not claimed either way
                            inn(hn, f"matching_shapes_{an}_{zn}", hf, a_.copy(), v_ * z)
                    else:
                        out(hn, f"mismatched_shapes_{an}_vs_{vn}_{zn}_target", hf, a_.copy(), v_ * z)
        out(hn, "mismatched_length", hf, a3c.copy(), np.array([[1.0], [0.0]]))
    # ---------------- scalar multiples of a sparse quaternion matrix: complex scalars have no canonical embedding and are rejected
    S_ = to_sparse(lib, gen(2, 3))
    for nm_, sc_ in (("python_complex", 1 + 2j), ("np.complex128", np.complex128(1 + 2j)), ("np.complex64", np.complex64(1 + 2j)), ("str", "2"), ("None", None), ("list", [2.0]), ("bytes", b"2")):
        out("SparseQuaternionMatrix.__mul__", f"non_real_scalar_{nm_}", (lambda S, c: S * c), S_, sc_)
        out("SparseQuaternionMatrix.__rmul__", f"non_real_scalar_{nm_}", (lambda S, c: c * S), S_, sc_)
    for nm_, sc_ in (("int", 2), ("float", 2.5), ("np.float64", np.float64(2.5)), ("np.float32", np.float32(2.5)), ("negative", -1.0), ("zero", 0.0)):
        inn("SparseQuaternionMatrix.__mul__", f"real_scalar_{nm_}", (lambda S, c: S * c), S_, sc_)
    # ---------------- component-form product: non-conformable operands, in particular with a one-element operand (no silent broadcasting)
    from checks.common import comps as _comps
    for (sa, sb) in (((1, 1), (3, 2)), ((1, 2), (1, 1)), ((2, 3), (2, 3)), ((3, 1), (3, 1)), ((1, 1), (2, 1)), ((2, 2), (1, 1)), ((1, 3), (1, 3))):
        out("timesQsparse", f"nonconformable_{sa[0]}x{sa[1]}_times_{sb[0]}x{sb[1]}", u.timesQsparse, *_comps(gen(*sa)), *_comps(gen(*sb, 3)))
        out("timesQsparse(sparse)", f"nonconformable_{sa[0]}x{sa[1]}_times_{sb[0]}x{sb[1]}", u.timesQsparse, *[sp.csr_matrix(c) for c in _comps(gen(*sa))], *[sp.csr_matrix(c) for c in _comps(gen(*sb, 3))])
        out("quat_matmat", f"nonconformable_{sa[0]}x{sa[1]}_times_{sb[0]}x{sb[1]}", u.quat_matmat, Q(gen(*sa)), Q(gen(*sb, 3)))
    for (sa, sb) in (((1, 1), (1, 3)), ((3, 1), (1, 1)), ((1, 1), (1, 1)), ((1, 2), (2, 1))):
        inn("timesQsparse", f"conformable_{sa[0]}x{sa[1]}_times_{sb[0]}x{sb[1]}", u.timesQsparse, *_comps(gen(*sa)), *_comps(gen(*sb, 3)))
    inn("CGNEQSolver.compute", "boundary_1x1", lambda A: sv.CGNEQSolver(max_iter=20).compute(A), Q(spd_tall(1, 1)))
    inn("CGNEQSolver.compute", "boundary_3x1", lambda A: sv.CGNEQSolver(max_iter=20).compute(A), Q(spd_tall(3, 1)))
    out("DeepLinearNewtonSchulz.compute", "layer_mismatch", lambda X, L: sv.DeepLinearNewtonSchulz(max_iter=2).compute(X, L), Q(spd_tall(3, 2)), [3, 2])
    inn("DeepLinearNewtonSchulz.compute", "in_domain_single_layer", lambda X, L: sv.DeepLinearNewtonSchulz(max_iter=2).compute(X, L), Q(spd_tall(3, 2)), [2, 3])
    # triangular kernels: shape-coupled pair
    Tc = comps(spd_tall(3, 3))
    out("UtriangleQsparse", "mismatched_rhs", u.UtriangleQsparse, *Tc, *comps(gen(2, 1)))
    inn("UtriangleQsparse", "boundary_1x1", u.UtriangleQsparse, *comps(spd_tall(1, 1)), *comps(gen(1, 1)))
    return cells


def _hash_args(a, k):
    hs = []
    for x in list(a) + list(k.values()):
        if isinstance(x, np.ndarray):
            hs.append((x.shape, str(x.dtype), x.tobytes()))
        elif type(x).__name__ == "SparseQuaternionMatrix":
            hs.append(tuple((c.shape, c.toarray().tobytes()) for c in (x.real, x.i, x.j, x.k)))
        else:
            hs.append(repr(x))
    return hs


def _finite(r):
    if r is None:
        return True
    if isinstance(r, (tuple, list)):
        return all(_finite(x) for x in r)
    if isinstance(r, dict):
        return all(_finite(v) for k, v in r.items() if k not in ("iteration_times", "total_time"))
    if isinstance(r, np.ndarray):
        if r.dtype == np.quaternion:
            return bool(np.all(np.isfinite(G.from_quat(r)))) if r.size else True
        if r.dtype.kind in "fc":
            return bool(np.all(np.isfinite(r)))
        return True
    if isinstance(r, (float, complex, np.floating, np.complexfloating)):
        return bool(np.isfinite(r))
    return True


_CELLS = {}


def _cells(style="flat"):
    if style not in _CELLS:
        _CELLS[style] = build_cells(load(style))
    return _CELLS[style]


def cases(tier, seed):
    # the table needs the library to be built; enumerate names in a subprocess-free way:
    # the parent only needs stable keys, so build the table once here too (pure construction).
    out = []
    for style in (("flat",) if tier == "quick" else ("flat", "package")):
        cells = _cells(style)
        for i, (name, cls, kind, fn, a, k) in enumerate(cells):
            key = f"{kind}/{name}/{cls}" + ("" if style == "flat" else "/package-import")
            out.append({"key": key, "idx": i, "entry": name, "cls": cls, "kind": kind, "style": style})
    return out


def run_case(case, seed):
    name, cls, kind, fn, a, k = _cells(case.get("style", "flat"))[case["idx"]]
    assert (name, cls, kind) == (case["entry"], case["cls"], case["kind"])
    np.random.seed(12345)
    before = _hash_args(a, k)
    ok, r = call(fn, *a, **k)
    after = _hash_args(a, k)
    fails = []
    gcls = cls.split("_option")[0] if cls.startswith("unknown_option") else cls
    tags = {"entry": name, "cls": cls, "kind": kind, "class_group": "unknown_option" if cls.startswith("unknown_option") else gcls}
    if kind == "out":
        if ok:
            fails.append(fail("out_of_domain_answered", f"{name}({cls}) returned {type(r).__name__} instead of raising", **tags))
        if before != after and name not in ("UtriangleQsparse",):
            fails.append(fail("argument_modified_before_rejection", f"{name}({cls})", **tags))
        path = "raised:" + type(r).__name__ if not ok else "returned"
    else:
        if not ok:
            fails.append(fail("in_domain_rejected", f"{name}({cls}) raised {type(r).__name__}: {r}", **tags))
        elif not _finite(r):
            fails.append(fail("in_domain_nonfinite", f"{name}({cls}) returned a non-finite value", **tags))
        if before != after and name not in ("UtriangleQsparse",):
            fails.append(fail("argument_modified", f"{name}({cls})", **tags))
        path = "returned" if ok else "raised:" + type(r).__name__
    return {"key": case["key"], "fails": fails, "nontrivial": True, "digest": case["key"], "path": f"{kind}:{path}", "obs": [f["clause"] for f in fails]}


def summarize(results):
    by = {}
    for r in results:
        kind, name, cls = r["key"].replace("/package-import", "").split("/", 2)
        g = "unknown_option" if cls.startswith("unknown_option") else ("boundary" if cls.startswith("boundary") else cls.split("_ord")[0])
        by[f"{kind}:{g}"] = by.get(f"{kind}:{g}", 0) + 1
    return {"cells_by_class": by, "entry_points": len({r["key"].split("/")[1] for r in results})}
