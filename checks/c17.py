"""C17 — QSLST restoration solves the Tikhonov normal equations of the documented blur.

Model M.conv: centred circular convolution by index loop
  Y[i,j] = sum_{u,v} psf[u,v] * X[(i-(u-cH)) mod H, (j-(v-cW)) mod W],  cH=kH//2, cW=kW//2
(an impulse at p is mapped to the PSF with its middle tap (cH,cW) on p).  The operator is
bilinear in (psf, image): every tap impulse x every pixel impulse pins it for each size.
"""
from __future__ import annotations

import itertools

import numpy as np

from checks.common import hash_tag
from qmc import gen as G
from qmc.loader import load, load_app_script
from qmc.run import call, digest, fail

ID = "C17"
LEVEL = "model_checking"
RULE = (
    "cases = image size (H,W) x PSF size (kH<=H,kW<=W) [x kernel kind]; inside a blur case every tap impulse x pixel impulse "
    "is one evaluation; restoration cases x lambda grid; non-trivial = non-zero kernel and image; distinct by construction"
)
BOUNDS = {
    "quick": "H,W<=5, all kH<=H,kW<=W (even, odd, 1x1, 1xk, kx1): all tap x pixel impulse pairs; builders + restorations for H,W<=4 with 3 kernel kinds x lambda in {2^-10,1e-3,0.1,1,10} (+0 where invertible); gaussian radius 0..2, motion length 1..5 x 5 angles; integer-valued operators as int64/int32/float32 matrices",
    "thorough": "H,W<=7 impulses; restorations H,W<=6",
}
THOROUGH_STREAMS = 8
WALL_BUDGET = {"quick": 300, "thorough": 2400}
ASSUMPTIONS = ["FFT results compared with the index-level definition to 1e-12 (absolute, entries O(1))", "restoration reference: numpy.linalg.solve on the model's explicit N x N matrix (N <= 25/36)"]
LAMS = [2.0 ** -10, 1e-3, 0.1, 1.0, 10.0]


def conv_matrix(psf, H, W):
    kH, kW = psf.shape
    cH, cW = kH // 2, kW // 2
    N = H * W
    A = np.zeros((N, N))
    for i, j in itertools.product(range(H), range(W)):
        for u, v in itertools.product(range(kH), range(kW)):
            ii = (i - (u - cH)) % H
            jj = (j - (v - cW)) % W
            A[i * W + j, ii * W + jj] += psf[u, v]
    return A


def conv(X, psf):
    H, W = X.shape
    return (conv_matrix(psf, H, W) @ X.reshape(-1)).reshape(H, W)


def kernels(kH, kW, fill):
    out = {}
    k = fill.ints((kH, kW), 0, 9).astype(float)
    k[0, 0] += 1.0
    if kH * kW > 1:
        k[-1, -1] = 0.0  # asymmetric support
    out["asym_int"] = k / 8.0
    out["ramp"] = (np.arange(1, kH * kW + 1, dtype=float).reshape(kH, kW)) / 16.0
    # point-symmetric kernel (equal to its 180-degree flip): for an even dimension the centred kernel is NOT symmetric about the origin
    ks = fill.ints((kH, kW), 1, 9).astype(float)
    out["pointsym"] = (ks + ks[::-1, ::-1]) / 16.0
    if kH == kW and kH >= 2:
        # equal to its TRANSPOSE but not point-symmetric about the middle tap (outer product of an asymmetric profile with itself)
        v_ = fill.ints((kH,), 1, 9).astype(float)
        v_[0] += 3.0
        out["transsym"] = np.outer(v_, v_) / 64.0
    if kW == 2 or kH == 2:
        # two nearly equal taps: the transfer function almost vanishes at the Nyquist frequency of an even-length axis
        # (invertible blur, cond(A) ~ 2.6e5), zeros elsewhere
        k2 = np.zeros((kH, kW))
        if kW == 2:
            k2[0, 0], k2[0, 1] = 0.5 + 2.0 ** -19, 0.5 - 2.0 ** -19
        else:
            k2[0, 0], k2[1, 0] = 0.5 + 2.0 ** -19, 0.5 - 2.0 ** -19
        out["nearcancel"] = k2
    return out


def cases(tier, seed):
    S = 5 if tier == "quick" else 7
    R = 4 if tier == "quick" else 6
    out = []
    for H, W in itertools.product(range(1, S + 1), repeat=2):
        for kH, kW in itertools.product(range(1, H + 1), range(1, W + 1)):
            out.append({"key": f"blur/{H}x{W}/psf={kH}x{kW}", "grp": "blur", "H": H, "W": W, "kH": kH, "kW": kW})
    for H, W in itertools.product(range(1, R + 1), repeat=2):
        for kH, kW in itertools.product(range(1, H + 1), range(1, W + 1)):
            out.append({"key": f"restore/{H}x{W}/psf={kH}x{kW}", "grp": "restore", "H": H, "W": W, "kH": kH, "kW": kW})
    # image sizes with a large prime factor (FFT length selection) and non-C memory layouts of the image arguments
    for (H, W) in ((13, 4), (5, 17), (19, 3), (11, 9)):
        out.append({"key": f"restore/{H}x{W}/psf=3x3/bigprime", "grp": "restore", "H": H, "W": W, "kH": 3, "kW": 3})
        out.append({"key": f"restore/{H}x{W}/psf=2x3/bigprime", "grp": "restore", "H": H, "W": W, "kH": 2, "kW": 3})
    for (H, W) in ((3, 4), (4, 3), (5, 5)):
        for lay in ("F", "T", "view", "ro"):
            out.append({"key": f"restore/{H}x{W}/psf=2x3/layout={lay}", "grp": "restore", "H": H, "W": W, "kH": 2, "kW": 3 if W >= 3 else W, "lay": lay})
    for r in range(3):
        out.append({"key": f"psfgen/gauss/r={r}", "grp": "gauss", "r": r})
    for L in range(1, 6):
        for ang in (0, 30, 45, 90, 135):
            out.append({"key": f"psfgen/motion/L={L}/a={ang}", "grp": "motion", "L": L, "ang": ang})
    return out


def run_case(case, seed):
    lib = load()
    q = lib.qslst
    fails = []
    evals = 0
    nontriv = 0
    grp = case["grp"]
    fill = G.Fill(seed, stream=hash_tag(case["key"]))
    if grp in ("gauss", "motion"):
        if grp == "gauss":
            ok, psf = call(q.build_psf_gaussian, case["r"], 1.0 + 0.5 * case["r"])
            K = 2 * case["r"] + 1
        else:
            ok, psf = call(q.build_psf_motion, case["L"], float(case["ang"]))
            K = case["L"] if case["L"] % 2 == 1 else case["L"] + 1
        tags = {"grp": grp}
        if not ok:
            fails.append(fail("raised", f"{psf}", **tags))
        else:
            if psf.shape != (K, K):
                fails.append(fail("psf_shape", f"{psf.shape} expected {(K, K)}", **tags))
            if abs(psf.sum() - 1.0) > 1e-12 or (psf < 0).any():
                fails.append(fail("psf_unit_mass_nonneg", f"sum={psf.sum()!r}", **tags))
            if grp == "gauss" and not (np.allclose(psf, psf.T) and np.allclose(psf, psf[::-1, ::-1])):
                fails.append(fail("gauss_symmetric", "", **tags))
            # used as a kernel on an image at least as large: impulse -> centred PSF
            H = W = K + 1
            X = np.zeros((H, W, 4))
            X[1, 2 % W, 2] = 1.0
            ok2, Y = call(q.apply_blur_fft, X, psf)
            exp = conv(X[..., 2], psf)
            if not ok2 or np.max(np.abs(Y[..., 2] - exp)) > 1e-12:
                fails.append(fail("blur!=definition", f"{grp} kernel on {H}x{W}", **tags))
        return {"key": case["key"], "fails": fails, "nontrivial": True, "digest": case["key"], "path": grp}
    H, W, kH, kW = case["H"], case["W"], case["kH"], case["kW"]
    tags = {"grp": grp, "H": H, "W": W, "kH": kH, "kW": kW, "psf_is_image_size": (kH == H and kW == W), "psf_1x1": kH * kW == 1}
    if grp == "blur":
        cnt = 0
        for (u, v), (i0, j0) in itertools.product(itertools.product(range(kH), range(kW)), itertools.product(range(H), range(W))):
            psf = np.zeros((kH, kW))
            psf[u, v] = 1.0
            ch = cnt % 4
            cnt += 1
            X = np.zeros((H, W, 4))
            X[i0, j0, ch] = 1.0
            ok, Y = call(q.apply_blur_fft, X, psf)
            evals += 1
            nontriv += 1
            if not ok:
                fails.append(fail("raised", f"{Y}", **tags))
                continue
            exp = np.zeros((H, W, 4))
            exp[(i0 + (u - kH // 2)) % H, (j0 + (v - kW // 2)) % W, ch] = 1.0
            if Y.shape != exp.shape or np.max(np.abs(Y - exp)) > 1e-12:
                got = np.unravel_index(np.argmax(np.abs(Y[..., ch])), (H, W))
                fails.append(fail("impulse->centred_psf", f"tap ({u},{v}) pixel ({i0},{j0}) channel {ch}: response peak at {tuple(int(t) for t in got)}, definition {((i0 + u - kH // 2) % H, (j0 + v - kW // 2) % W)}", **tags))
        for nm, psf in kernels(kH, kW, fill).items():
          for imgkind in ("generic", "meancentred", "zerosum_exact"):
            X = fill.dyadic((H, W, 4), bits=3, lo=-16, hi=16)
            if imgkind == "meancentred":  # channel sums cancel to rounding level without being exactly zero
                X = X * 0.3 - (X * 0.3).mean(axis=(0, 1))
            elif imgkind == "zerosum_exact" and H * W >= 2:
                X[-1, -1] = -(X.reshape(-1, 4).sum(axis=0) - X[-1, -1])
            before = (X.tobytes(), psf.tobytes())
            ok, Y = call(q.apply_blur_fft, X, psf)
            evals += 1
            if not ok:
                fails.append(fail("raised", f"{Y}", **tags))
                continue
            exp = np.stack([conv(X[..., c], psf) for c in range(4)], axis=-1)
            if np.max(np.abs(Y - exp)) > 1e-11:
                fails.append(fail("blur!=definition", f"kernel {nm}: max deviation {np.max(np.abs(Y - exp)):.3e}", **tags))
            if abs(Y.sum() - psf.sum() * X.sum()) > 1e-10:
                fails.append(fail("mass_preserved", f"kernel {nm}", **tags))
            if (X.tobytes(), psf.tobytes()) != before:
                fails.append(fail("input_unchanged", "apply_blur_fft modified an argument", **tags))
            # exact channel independence: channel a of the result is a function of channel a of the input only - rescaling
            # another channel by 2^40 (or zeroing it) must leave it bit-identical; the same for the restoration
            for b_ in range(4):
                for how in ("scaled", "zeroed"):
                    X2 = X.copy()
                    X2[..., b_] = np.ldexp(X2[..., b_], 40) if how == "scaled" else 0.0
                    ok2, Y2 = call(q.apply_blur_fft, X2, psf)
                    ok3, R1 = call(q.qslst_restore_fft, X, psf, 0.125)
                    ok4, R2 = call(q.qslst_restore_fft, X2, psf, 0.125)
                    evals += 3
                    others = [a_ for a_ in range(4) if a_ != b_]
                    if not ok2 or Y2[..., others].tobytes() != Y[..., others].tobytes():
                        fails.append(fail("channel_independent", f"kernel {nm}: blur of channels {others} changes when channel {b_} is {how}", op="blur", **tags))
                    if not (ok3 and ok4) or R2[..., others].tobytes() != R1[..., others].tobytes():
                        fails.append(fail("channel_independent", f"kernel {nm}: restoration of channels {others} changes when channel {b_} is {how}", op="restore", **tags))
        return {"key": case["key"], "fails": fails[:30], "evals": evals, "nontrivial_n": nontriv, "transitions": evals, "traces": evals - len(fails),
                "path": f"psf_full={kH == H and kW == W},even={kH % 2 == 0 or kW % 2 == 0}", "obs": len(fails)}
    # restoration + builders
    app = load_app_script()
    for nm, psf in kernels(kH, kW, fill).items():
        A = conv_matrix(psf, H, W)
        N = H * W
        ok, Ad = call(app._build_bccb_matrix, psf, H, W)
        ok2, Ac = call(lambda: app._build_bccb_csr(psf, H, W).toarray())
        evals += 2
        t2 = {**tags, "kernel": nm}
        if not ok or Ad.shape != (N, N) or not np.array_equal(Ad, A):
            fails.append(fail("dense_builder!=definition", f"kernel {nm}: {'raised ' + str(Ad) if not ok else 'max dev %.3e' % np.max(np.abs(Ad - A))}", builder="dense", **t2))
        if not ok2 or Ac.shape != (N, N) or not np.array_equal(Ac, A):
            fails.append(fail("csr_builder!=definition", f"kernel {nm}: {'raised ' + str(Ac) if not ok2 else 'max dev %.3e' % np.max(np.abs(Ac - A))}", builder="csr", **t2))
        B = fill.dyadic((H, W, 4), bits=3, lo=-16, hi=16)
        lay = case.get("lay", "C")
        if lay == "F":
            B = np.asfortranarray(B)
        elif lay == "T":
            B = np.ascontiguousarray(B.transpose(1, 0, 2)).transpose(1, 0, 2)
        elif lay == "view":
            big = np.zeros((2 * H + 1, 2 * W + 1, 8))
            big[1::2, 1::2, ::2] = B
            B = big[1::2, 1::2, ::2]
        elif lay == "ro":
            B = B.copy()
            B.setflags(write=False)
            psf = psf.copy()
            psf.setflags(write=False)
        if lay != "C":
            ok, Yb = call(q.apply_blur_fft, B, psf)
            evals += 1
            expb = np.stack([conv(np.ascontiguousarray(B[..., c]), psf) for c in range(4)], axis=-1)
            if not ok or np.max(np.abs(Yb - expb)) > 1e-11:
                fails.append(fail("blur!=definition", f"kernel {nm}: image in memory layout {lay}", layout=lay, **t2))
        Hhat = np.fft.fft2(A[:, 0].reshape(H, W))
        lams = list(LAMS) + ([0.0] if np.min(np.abs(Hhat)) > 1e-3 else [])
        if nm == "nearcancel":
            lams = [2.0 ** -10, 2.0 ** -40] + ([0.0] if np.min(np.abs(Hhat)) > 1e-7 else [])
        for lam in lams:
            T = A.T @ A + lam * np.eye(N)
            if nm == "nearcancel":
                # reference through the SVD of A itself (accuracy u cond(A), not u cond(A)^2): x = V diag(s/(s^2+lam)) U^T b
                Us, ss, Vts = np.linalg.svd(A)
                filt = ss / (ss * ss + lam)
                ref = np.stack([(Vts.T @ (filt * (Us.T @ B[..., c].reshape(-1)))).reshape(H, W) for c in range(4)], axis=-1)
                tol = 1e-4 * max(1.0, np.max(np.abs(ref)))
            else:
                ref = np.stack([np.linalg.solve(T, A.T @ B[..., c].reshape(-1)).reshape(H, W) for c in range(4)], axis=-1)
                tol = 1e-9 * max(1.0, np.max(np.abs(ref))) * max(1.0, np.linalg.cond(T) * 1e-6)
            nontriv += 1
            ok, Xf = call(q.qslst_restore_fft, B, psf, lam)
            evals += 1
            if not ok:
                fails.append(fail("raised", f"restore_fft: {Xf}", **t2))
            elif np.max(np.abs(Xf - ref)) > tol:
                fails.append(fail("restore_fft!=normal_equations", f"kernel {nm} lam={lam}: max dev {np.max(np.abs(Xf - ref)):.3e}", lam=lam, **t2))
            ok, Xm = call(q.qslst_restore_matrix, B, A, lam)
            evals += 1
            if not ok:
                fails.append(fail("raised", f"restore_matrix: {Xm}", **t2))
            elif np.max(np.abs(Xm - ref)) > tol:
                fails.append(fail("restore_matrix!=normal_equations", f"kernel {nm} lam={lam}: max dev {np.max(np.abs(Xm - ref)):.3e}", lam=lam, **t2))
            # the operator in another exactly representable dtype (integer kernels: int64 / int32 / float32 matrices) is the same operator
            if ok and nm != "nearcancel" and np.array_equal(A, np.round(A)) and np.max(np.abs(A)) < 2 ** 20:
                for dt in (np.int64, np.int32, np.float32):
                    okd, Xd = call(q.qslst_restore_matrix, B, A.astype(dt), lam)
                    evals += 1
                    if not okd:
                        fails.append(fail("raised", f"restore_matrix with a {np.dtype(dt).name} operator: {Xd}", **t2))
                    elif np.max(np.abs(Xd - ref)) > max(tol, 1e-5 * max(1.0, np.max(np.abs(ref))) if dt == np.float32 else tol):
                        fails.append(fail("restore_matrix!=normal_equations", f"kernel {nm} lam={lam}, operator dtype {np.dtype(dt).name}: max dev {np.max(np.abs(Xd - ref)):.3e}", lam=lam, op_dtype=np.dtype(dt).name, **t2))
            if lam == 0.0 and ok:
                # inverts the blur
                X0 = fill.dyadic((H, W, 4), bits=3, lo=-16, hi=16)
                Bb = np.stack([conv(X0[..., c], psf) for c in range(4)], axis=-1)
                okr, Xr = call(q.qslst_restore_fft, Bb, psf, 0.0)
                if not okr or np.max(np.abs(Xr - X0)) > 1e-7 * np.linalg.cond(A):
                    fails.append(fail("lambda0_inverts_blur", f"kernel {nm}", **t2))
        # linearity and channel independence of the FFT restoration
        lam = 0.1
        B1 = fill.dyadic((H, W, 4), bits=3, lo=-16, hi=16)
        B2 = np.zeros((H, W, 4))
        B2[H - 1, 0, 1] = 1.0
        ok, r = call(lambda: (q.qslst_restore_fft(B1, psf, lam), q.qslst_restore_fft(B2, psf, lam), q.qslst_restore_fft(B1 + 2.0 * B2, psf, lam)))
        evals += 3
        if ok:
            R1, R2, R12 = r
            if np.max(np.abs(R12 - (R1 + 2.0 * R2))) > 1e-10 * max(1.0, np.max(np.abs(R12))):
                fails.append(fail("restore_linear_in_B", f"kernel {nm}", **t2))
            if np.max(np.abs(R2[..., [0, 2, 3]])) != 0.0:
                fails.append(fail("channel_independent", f"kernel {nm}: impulse in channel 1 leaks", **t2))
    return {"key": case["key"], "fails": fails[:30], "evals": evals, "nontrivial_n": nontriv, "transitions": evals, "traces": max(evals - len(fails), 0),
            "path": f"psf_full={kH == H and kW == W}", "obs": len(fails)}
