"""C04 — Q-GMRES returns a true solution and truthful convergence information.

Transition system: state = restart iterate x_m after cycle m; the cycle-m iterate is observed
as the result of the run with max_iter = m-1 (no instrumentation).  Model M.gmres: the cycle
must minimise ||b - A x|| over x_{m-1} + K_m(A, r_{m-1}) (right quaternion Krylov module),
computed by dense real least squares on the left-regular representation.
Breakdown positions (cycle m, Arnoldi step j) are forced by construction (monomial systems:
exact arithmetic, grade of e_k = cycle length) and observed with PathMonitor.
"""
from __future__ import annotations

import itertools
import math

import numpy as np

from checks.common import hash_tag, to_sparse, canon_value, quiet_call, relayout, xf_build, xf_names
from qmc import gen as G
from qmc import oracle as O
from qmc.loader import load
from qmc.pathmon import PathMonitor
from qmc.run import call, digest, fail

ID = "C04"
LEVEL = "model_checking"
RULE = (
    "one case = one system (A, b) from an enumerated class; inside: budget sweep max_iter = 0..n (trajectory of restart iterates), "
    "option cells tol x preconditioner x storage; states = (cycle, iterate) pairs, transitions = cycles compared with the model optimum; "
    "non-trivial = b != 0; distinct = sha1(A, b)"
)
BOUNDS = {
    "quick": "n<=3 all monomial Q8 matrices (8+128+3072) x every e_k; n=4: 24 perms x 16 phase patterns; scaled identity/monomial x 8 scales; diagonal multiplicity compositions x eigenvector subsets n<=4; structured/generic classes n<=4 x 3 scales x 4 rhs; tol {1e-2,1e-6,1e-12}; caps 0..n and None; precond {none,left_lu}; dense/sparse; near-eigenvector right-hand sides with perturbation 5e-3/5e-7/5e-11 and 2^-30..2^-52; exhaustive small-integer systems: all nonsingular real 2x2 over -2..2 and quaternion 2x2 over {0,1,-1,i,j,k} x every non-zero rhs over the alphabet, all nonsingular real 3x3 over {-1,0,1} x 4 rhs; injected breakdown at every (cycle, step) n<=6; injected LU zero pivot; exactly Hermitian indefinite ill-conditioned systems n in {8,12,16}, cond 1e3/1e5",
    "thorough": "n=4 all 98304 monomial matrices (strided 1/8), n=5 structured classes; all nonsingular real 3x3 over {-1,0,1,2} x 4 rhs and quaternion 3x3 over {0,1,i,j} x 2 rhs",
}
WALL_BUDGET = {"quick": 600, "thorough": 3400}
ASSUMPTIONS = [
    "cond(A) <= 1e4 in the enumerated classes; budgets scale with the oracle-computed condition number",
    "the zero-pivot fallback of the LU preconditioner is only reachable for singular A (outside the property's domain)",
]
SCALES = [2.0 ** -20, 2.0 ** -10, 1.0, 2.0 ** 10, 2.0 ** 20, 1e-6, 1e6, 3e-3]


# ------------------------------------------------------------------ model
def vec(x):
    return np.asarray(x, float).reshape(-1)  # (n,1,4) -> 4n, entry-interleaved


def krylov_opt(A, b, xprev, m):
    """min over z in K_m(A, r) of ||r - A z||, r = b - A xprev; returns (min_norm, dimension)."""
    n = A.shape[0]
    Ar = O.real_interleaved(A)
    r = b - O.qmatmul(A, xprev)
    cols = []
    v = r.copy()
    for _ in range(m):
        nv = O.fro(v)
        if nv == 0:
            break
        v = v / nv
        cols.append(O.real_interleaved(v))  # 4n x 4 : v*q for all q
        v = O.qmatmul(A, v)
    if not cols:
        return O.fro(r), 0
    K = np.hstack(cols)
    Qk, Rk = np.linalg.qr(K)
    keep = np.abs(np.diag(Rk)) > 1e-10 * max(1.0, np.abs(np.diag(Rk)).max())
    Qk = Qk[:, keep]
    M = Ar @ Qk
    y, *_ = np.linalg.lstsq(M, vec(r), rcond=None)
    return float(np.linalg.norm(vec(r) - M @ y)), int(keep.sum()) // 4


# ------------------------------------------------------------------ systems
def diag_matrix(vals):
    n = len(vals)
    A = np.zeros((n, n, 4))
    for i, v in enumerate(vals):
        A[i, i] = v
    return A


def cases(tier, seed):
    out = []
    # (i) monomial systems
    for n in (1, 2, 3):
        for idx, (p, ph, M) in enumerate(G.all_monomials(n)):
            out.append({"key": f"mono/n={n}/p={''.join(map(str, p))}/ph={''.join(map(str, ph))}", "cls": "mono", "n": n, "perm": list(p), "ph": list(ph), "scale": 1.0})
    stride = 8 if tier == "thorough" else None
    for p in G.perms(4):
        if stride is None:
            for a, b_, c, d in itertools.product((0, 3), (1, 4), (2, 7), (0, 5)):
                ph = (a, b_, c, d)
                out.append({"key": f"mono/n=4/p={''.join(map(str, p))}/ph={''.join(map(str, ph))}", "cls": "mono", "n": 4, "perm": list(p), "ph": list(ph), "scale": 1.0})
        else:
            for t, ph in enumerate(itertools.product(range(8), repeat=4)):
                if t % stride == 0:
                    out.append({"key": f"mono/n=4/p={''.join(map(str, p))}/ph={''.join(map(str, ph))}", "cls": "mono", "n": 4, "perm": list(p), "ph": list(ph), "scale": 1.0})
    # (ii) scaled identity / monomial
    for n in (1, 2, 3, 4):
        for si, c in enumerate(SCALES):
            out.append({"key": f"cI/n={n}/c={si}", "cls": "cI", "n": n, "scale": c})
            out.append({"key": f"cmono/n={n}/c={si}", "cls": "mono", "n": n, "perm": list(G.perms(n)[-1]), "ph": [(2 * i + 1) % 8 for i in range(n)], "scale": c})
    # (iii) diagonal with multiplicity patterns x eigenvector subsets
    for n in (1, 2, 3, 4):
        for comp in G.compositions(n):
            for sub in range(1, 1 << n):
                out.append({"key": f"diag/n={n}/c={'-'.join(map(str, comp))}/rhs={sub:0{n}b}", "cls": "diag", "n": n, "comp": list(comp), "sub": sub, "scale": 1.0})
    # (iv) structured / generic classes
    N = 4 if tier == "quick" else 5
    for n in range(1, N + 1):
        for st in ("rank1", "triu", "herm", "unitary", "generic"):
            for c in (1.0, 1e-6, 1e6):
                for rhs in ("e0", "elast", "generic", "zero"):
                    out.append({"key": f"{st}/n={n}/c={c:g}/rhs={rhs}", "cls": st, "n": n, "scale": c, "rhs": rhs})
    # near-invariant Krylov spaces: b = eigenvector of a small eigenvalue + perturbation just below a tolerance
    for n in (2, 3, 4):
        # ... and a sweep 2^-30 .. 2^-52 through the rounding-level window in which the breakdown test has to separate a small genuine direction from noise
        for di, delta in enumerate((5e-3, 5e-7, 5e-11) + tuple(2.0 ** -k for k in range(30, 54, 2))):
            for kind in ("id", "hh"):
                out.append({"key": f"neareig/n={n}/d={di}/{kind}", "cls": "neareig", "n": n, "scale": 1.0, "delta": delta, "kind": kind})
    # mid-cycle lucky breakdown: the restart residual after cycle 1 is an exact eigenvector, so cycle 2 breaks
    # down at its FIRST Arnoldi step (j = 0 < m - 1); rotated by a unitary so that the basis vector is not a
    # coordinate vector, padded with a decoupled c*I block (raises ||A|| so that the exact test fires)
    for ui in range(1, 4):
        for si, sv_ in enumerate(([1.0, 0, 0, 0], [0, 0, 1.0, 0])):
            for bi in range(2):
                for pad in (2, 3):
                    out.append({"key": f"midcycle/u={ui}/s={si}/b={bi}/pad={pad}", "cls": "midcycle", "n": 2 + pad, "scale": 1.0, "u": ui, "s": list(sv_), "b": bi, "pad": pad})
    # first cycle stagnates only up to rounding: Hermitian indefinite A with a symmetric +- spectrum (not in diagonal form) and b with equal
    # weight on each +- pair, so <b, A b> = 0 up to rounding and the first residual is 1 +- 1 ulp; the solver must go on and solve the system
    for n in (2, 4, 6):
        for v in range(16):
            out.append({"key": f"stagnate/n={n}/v={v}", "cls": "stagnate", "n": n, "scale": 1.0, "v": v})
    for n in (8, 12, 16):
        for k in (3, 5):
            out.append({"key": f"hermill/n={n}/cond=1e{k}", "cls": "hermill", "n": n, "scale": 1.0, "k": k})
    # fault injection on the path the property names ("lucky breakdown at any Arnoldi step"): the Arnoldi remainder norm of exactly one
    # (cycle m, step j) is replaced by 0 although the Krylov space is NOT invariant; every position is enumerated.  Whatever the solver
    # then returns, the record must tell the truth about it.
    for n in (3, 4, 5, 6):
        for m_ in range(1, n + 1):
            for j_ in range(m_):
                out.append({"key": f"fault/breakdown/n={n}/m={m_}/j={j_}", "cls": "fault", "n": n, "scale": 1.0, "m_": m_, "j_": j_})
    # second named fault path: the LU factorisation inside the left preconditioner reports a zero pivot (injected: quaternion_lu raises);
    # the solver falls back to the unpreconditioned system and must still solve it and tell the truth
    for n in (2, 3, 4, 5):
        for rhs in ("generic", "e0"):
            out.append({"key": f"fault/lu_zero_pivot/n={n}/rhs={rhs}", "cls": "fault_lu", "n": n, "scale": 1.0, "rhs": rhs})
    # ill-conditioned systems (cond 1e7..1e10): only the truthfulness of info.residual is decided there, against an
    # extended-precision (80-bit) evaluation of ||Ax-b||/||b||
    for n in (4, 6, 9):
        for k in (3, 5, 6, 7, 8, 10):
            for kind in ("hh", "mono"):
                for rhs in ("generic", "top_singular"):
                    out.append({"key": f"illcond/n={n}/cond=1e{k}/{kind}/rhs={rhs}", "cls": "illcond", "n": n, "scale": 1.0, "k": k, "kind": kind, "rhs": rhs})
    # unusual-but-legal system matrices (skipped by run_case when singular or cond > 1e6), generic and unit right-hand sides
    for n in (2, 3, 4):
        for nm in xf_names(n, n):
            for rhs in ("generic", "e0"):
                out.append({"key": f"xf/n={n}/{nm}/rhs={rhs}", "cls": "xf", "n": n, "scale": 1.0, "xf": nm, "rhs": rhs})
    # small-integer systems, exhaustively: every nonsingular n x n matrix with entries from a small alphabet x a set of right-hand sides.
    # Exact data make exact and rounding-level invariances of the Krylov space the rule, not the exception (the restart residual of a
    # cycle is an eigenvector, A^2 r is a combination of r and A r, ...): the Arnoldi remainder is then 0 or a few ulps, decided by the data.
    # One case = one block of the enumeration (fixed leading entries).
    for ai, alpha in enumerate(SMALLINT_ALPHABETS):
        if alpha["tier"] == "thorough" and tier != "thorough":
            continue
        n, k, lead = alpha["n"], len(alpha["vals"]), alpha["lead"]
        for blk in itertools.product(range(k), repeat=lead):
            out.append({"key": f"smallint/a={ai}/n={n}/lead={''.join(map(str, blk))}", "cls": "smallint", "n": n, "scale": 1.0, "alpha": ai, "blk": list(blk)})
    return out


Q1, QI, QJ, QK = (1.0, 0, 0, 0), (0, 1.0, 0, 0), (0, 0, 1.0, 0), (0, 0, 0, 1.0)


def _q(r):
    return (float(r), 0.0, 0.0, 0.0)


SMALLINT_ALPHABETS = [
    # real 2 x 2, entries -2..2, every non-zero right-hand side over the same alphabet
    {"tier": "quick", "n": 2, "vals": [_q(v) for v in (-2, -1, 0, 1, 2)], "lead": 2, "rhs": "all"},
    # quaternion 2 x 2, entries {0, 1, -1, i, j, k}
    {"tier": "quick", "n": 2, "vals": [_q(0), _q(1), _q(-1), QI, QJ, QK], "lead": 2, "rhs": "all"},
    # real 3 x 3, entries {-1, 0, 1}, four right-hand sides
    {"tier": "quick", "n": 3, "vals": [_q(v) for v in (-1, 0, 1)], "lead": 4, "rhs": [(1, 1, 1), (-1, -2, -2), (1, 0, 0), (1, -1, 2)]},
    # real 3 x 3, entries {-1, 0, 1, 2}
    {"tier": "thorough", "n": 3, "vals": [_q(v) for v in (-1, 0, 1, 2)], "lead": 4, "rhs": [(1, 1, 1), (-1, -2, -2), (1, 0, 0), (1, -1, 2)]},
    # quaternion 3 x 3, entries {0, 1, i, j}, upper-left entry fixed to the alphabet by the block
    {"tier": "thorough", "n": 3, "vals": [_q(0), _q(1), QI, QJ], "lead": 4, "rhs": [(1, 1, 1), (1, 0, 0)]},
]


def run_smallint(case, seed):
    """Exhaustive block of small-integer systems: each must be solved to the tolerance within n cycles, with a truthful record."""
    lib = load()
    S = lib.solver.QGMRESSolver
    alpha = SMALLINT_ALPHABETS[case["alpha"]]
    n, vals, blk = alpha["n"], alpha["vals"], case["blk"]
    k = len(vals)
    if alpha["rhs"] == "all":
        rhss = []
        for idx in itertools.product(range(k), repeat=n):
            if any(any(vals[i]) for i in idx):
                bb = np.zeros((n, 1, 4))
                for r, i in enumerate(idx):
                    bb[r, 0] = vals[i]
                rhss.append(("".join(map(str, idx)), bb))
    else:
        rhss = []
        for bv in alpha["rhs"]:
            bb = np.zeros((n, 1, 4))
            bb[:, 0, 0] = bv
            rhss.append((",".join(map(str, bv)), bb))
    fails, states = [], []
    systems = 0
    solved_by = {}
    tol = 1e-10
    for rest in itertools.product(range(k), repeat=n * n - len(blk)):
        idx = tuple(blk) + rest
        A = np.zeros((n, n, 4))
        for t, i in enumerate(idx):
            A[t // n, t % n] = vals[i]
        sv_ = O.svals(A)
        if sv_[-1] <= 1e-9 * sv_[0]:
            continue  # singular: outside the property's domain (integer entries: a nonsingular matrix has sigma_min far above this)
        condA = float(sv_[0] / sv_[-1])
        floor = 64 * O.U * condA * n * 4
        nA = O.fro(A)
        Aq = G.to_quat(A)
        mname = "".join(map(str, idx))
        for bi, (bname, b) in enumerate(rhss):
            nb = O.fro(b)
            bq = G.to_quat(b)
            for prec in (("none", "left_lu") if bi == 0 else ("none",)):
                systems += 1
                tags = {"cls": "smallint", "n": n, "alphabet": case["alpha"], "prec": prec}
                ok, res = quiet_call(S(tol=tol, preconditioner=prec).solve, Aq, bq)
                label = f"A={mname} b={bname} prec={prec}"
                if not ok:
                    fails.append(fail("raised", f"{label}: {type(res).__name__}: {res}", **tags))
                    continue
                x = G.from_quat(res[0]).reshape(n, 1, 4)
                info = res[1]
                if not O.is_finite(x):
                    fails.append(fail("x_finite", f"{label}: non-finite solution", **tags))
                    continue
                tr = O.fro(O.qmatmul(A, x) - b) / nb
                rep = info.get("residual")
                noise = 64 * O.U * (nA * O.fro(x) / nb + 1.0)
                if rep is None or not np.isfinite(rep) or abs(rep - tr) > 1e-9 * max(tr, 1e-300) + 1e-13 + noise:
                    fails.append(fail("info.residual_truthful", f"{label}: info.residual = {rep!r}, ||Ax-b||/||b|| = {tr!r}", **tags))
                mult = max(1.0, condA) if prec == "left_lu" else 1.0
                if info.get("converged") and tr > 10 * tol * mult + floor:
                    fails.append(fail("converged=>small_residual", f"{label}: converged=True with true residual {tr:.3e}", **tags))
                lim = max(tol, floor) * mult * 1.01 + floor
                if tr > lim:
                    fails.append(fail("solves_within_n_cycles", f"{label}: true residual {tr:.3e} > {lim:.3e} after {info.get('iterations')} cycles", **tags))
                it = info.get("iterations")
                if isinstance(it, (int, np.integer)) and it > n:
                    fails.append(fail("at_most_n_cycles", f"{label}: {it} cycles for n = {n}", **tags))
                solved_by[it] = solved_by.get(it, 0) + 1
        states.append(digest(mname))
    return {
        "key": case["key"],
        "fails": fails[:30],
        "nontrivial": systems > 0,
        "digest": digest(case["key"]),
        "states": states,
        "transitions": max(systems, 1),
        "traces": 0 if fails else systems,
        "path": "smallint",
        "obs": [len(fails), sorted((str(a), b) for a, b in solved_by.items())],
    }


def build(case, seed):
    n = case["n"]
    cls = case["cls"]
    fill = G.Fill(seed, stream=hash_tag(case["key"]))
    bs = []
    if cls == "mono":
        A = G.monomial(tuple(case["perm"]), [G.SIGNED_UNITS[t] for t in case["ph"]]).astype(float) * case["scale"]
        for k in range(n):
            b = np.zeros((n, 1, 4))
            b[k, 0, 0] = case["scale"]
            bs.append((f"e{k}", b))
    elif cls == "cI":
        A = O.qeye(n) * case["scale"]
        bs.append(("generic", fill.quat(n, 1, bits=3, lo=-16, hi=16) * case["scale"]))
        b = np.zeros((n, 1, 4))
        b[0, 0, 2] = case["scale"]
        bs.append(("e0j", b))
    elif cls == "diag":
        vals = []
        letters = [np.array([2.0, 0, 0, 0]), np.array([0.0, 1.0, 0, 0]), np.array([-1.0, 0, 1.0, 0]), np.array([0.5, 0.5, 0.5, 0.5])]
        for c, L in zip(case["comp"], letters):
            vals += [L] * c
        A = diag_matrix(vals)
        b = np.zeros((n, 1, 4))
        for i in range(n):
            if (case["sub"] >> i) & 1:
                b[i, 0] = [1.0, 0.5 * i, 0, -0.25]
        bs.append(("subset", b))
    elif cls == "midcycle":
        l = 2.0
        s_ = np.array(case["s"], float)
        b2 = np.array([1.0, 0, 0, 0]) if case["b"] == 0 else np.array([1.0, 1.0, 0, 0])
        b1 = -O.qmul(s_, b2) / l
        J = np.zeros((2, 2, 4))
        J[0, 0, 0] = J[1, 1, 0] = l
        J[0, 1] = s_
        uq = G.UNITS[case["u"]].astype(float)
        Mq = np.zeros((2, 2, 4))
        Mq[0, 0, 0] = Mq[1, 1, 0] = 1.0
        Mq[0, 1] = uq
        Mq[1, 0] = -uq * O.CONJ
        A2 = 0.5 * O.qmatmul(O.qmatmul(Mq, J), O.qH(Mq))  # (M/sqrt2) J (M/sqrt2)^H, exact
        bvec = O.qmatmul(Mq, np.stack([b1, b2]).reshape(2, 1, 4))
        A = np.zeros((n, n, 4))
        A[:2, :2] = A2
        for t in range(2, n):
            A[t, t, 0] = 64.0
        b = np.zeros((n, 1, 4))
        b[:2] = bvec
        bs.append(("midcycle", b))
    elif cls == "xf":
        A, lay = xf_build(case["xf"], n, n, fill)
        case["_lay"] = lay
        b = np.zeros((n, 1, 4))
        if case["rhs"] == "e0":
            b[0, 0, 0] = 1.0
        else:
            b = fill.quat(n, 1, bits=3, lo=-16, hi=16)
            if not b.any():
                b[0, 0, 0] = 1.0
        bs.append((case["rhs"], b))
    elif cls == "stagnate":
        lam = [3.0, -3.0, 5.0, -5.0, 2.0, -2.0][:n]
        fv = G.Fill(seed, stream=hash_tag(f"stagnate/{n}/{case['v']}"))
        V = G.unitary("hh", n, fv, variant=case["v"])
        A = O.qmatmul(O.qmatmul(V, G.diag_real(lam, n, n)), O.qH(V))
        A = 0.5 * (A + O.qH(A))
        w = np.zeros((n, 1, 4))
        for t in range(0, n, 2):
            ph = G.SIGNED_UNITS[(case["v"] + t) % 8].astype(float)
            w[t, 0] = ph
            w[t + 1, 0] = ph  # equal modulus on the two members of a +- pair
        b = O.qmatmul(V, w)
        bs.append(("pm_pairs", b))
    elif cls == "hermill":
        # exactly (bitwise) Hermitian, indefinite, ill-conditioned: eigenvalues log-spaced over cond with alternating signs; any short-recurrence
        # shortcut for Hermitian input loses orthogonality here, full modified Gram-Schmidt does not
        k = case["k"]
        lam = [(-1.0) ** t * 10.0 ** (-k * t / (n - 1)) for t in range(n)]
        fv = G.Fill(seed, stream=hash_tag(f"hermill/{n}/{k}"))
        V = G.unitary("hh", n, fv, variant=n + k)
        A = O.qmatmul(O.qmatmul(V, G.diag_real(lam, n, n)), O.qH(V))
        A = 0.5 * (A + O.qH(A))
        for t in range(n):
            A[t, t, 1:] = 0.0
        b = fv.quat(n, 1, bits=3, lo=-8, hi=8)
        if not b.any():
            b[0, 0, 0] = 1.0
        bs.append(("generic", b))
    elif cls == "neareig":
        lam = [0.01, 1.0, 2.0, -1.5][:n]
        V = G.unitary(case["kind"], n, fill, variant=n)
        A = O.qmatmul(O.qmatmul(V, G.diag_real(lam, n, n)), O.qH(V))
        b = V[:, :1] + case["delta"] * V[:, 1:].sum(axis=1, keepdims=True)
        bs.append(("near_eigenvector", b))
    else:
        c = case["scale"]
        if cls == "rank1":
            A = O.qeye(n) + 0.25 * O.qmatmul(fill.quat(n, 1, bits=2, lo=-4, hi=4), fill.quat(1, n, bits=2, lo=-4, hi=4))
        elif cls == "triu":
            A = fill.quat(n, n, bits=3, lo=-8, hi=8)
            for i in range(n):
                A[i, :i] = 0
                A[i, i] = G.SIGNED_UNITS[(i * 3 + 1) % 8].astype(float) * (1.0 + 0.5 * i)
        elif cls == "herm":
            H = fill.quat(n, n, bits=3, lo=-8, hi=8)
            A = 0.5 * (H + O.qH(H)) + 4.0 * O.qeye(n)
            for i in range(n):
                A[i, i, 1:] = 0
        elif cls == "unitary":
            A = G.unitary("hh", n, fill, variant=n)
        else:
            A = fill.quat(n, n, bits=4, lo=-32, hi=32) + 3.0 * O.qeye(n)
        A = A * c
        rhs = case["rhs"]
        b = np.zeros((n, 1, 4))
        if rhs == "e0":
            b[0, 0, 0] = 1.0
        elif rhs == "elast":
            b[n - 1, 0, 3] = 1.0
        elif rhs == "generic":
            b = fill.quat(n, 1, bits=3, lo=-16, hi=16)
            if not b.any():
                b[0, 0, 0] = 1.0
        bs.append((rhs, b * c))
    return A, bs


MON_PATTERNS = {"breakdown": r"breakdown = True"}


def left4_ld(A):
    """real 4m x 4n left-regular representation (component-blocked) in extended precision."""
    w, x, y, z = (A[..., t].astype(np.longdouble) for t in range(4))
    return np.block([[w, -x, -y, -z], [x, w, -z, y], [y, z, w, -x], [z, -y, x, w]])


def run_illcond(case, seed):
    lib = load()
    S = lib.solver.QGMRESSolver
    n, k = case["n"], case["k"]
    fill = G.Fill(seed, stream=hash_tag(case["key"]))
    vals = [10.0 ** (-k * t / (n - 1)) for t in range(n)]
    Uq_ = G.unitary(case["kind"], n, fill, variant=1)
    A = G.with_spectrum(Uq_, vals, G.unitary("hh", n, fill, variant=2))
    if case["rhs"] == "top_singular":
        # b = sigma_1 u_1: the solution is the (small) top right singular vector, so the residual of the ORIGINAL system is
        # resolved far below the residual of any left-preconditioned system (which is larger by up to cond(A))
        b = Uq_[:, :1] * vals[0]
    else:
        b = fill.quat(n, 1, bits=3, lo=-16, hi=16)
        if not b.any():
            b[0, 0, 0] = 1.0
    Aq, bq = G.to_quat(A), G.to_quat(b)
    AL = left4_ld(A)
    bL = np.concatenate([b[:, 0, t].astype(np.longdouble) for t in range(4)])
    fails, states = [], []
    for prec in ("none", "left_lu"):
        for tol in (1e-6, 1e-12):
            tags = {"cls": "illcond", "n": n, "cond_exp": k, "prec": prec, "tol": tol}
            ok, res = call(S(tol=tol, preconditioner=prec).solve, Aq, bq)
            if not ok:
                fails.append(fail("raised", f"{type(res).__name__}: {res}", **tags))
                continue
            x = G.from_quat(res[0]).reshape(n, 1, 4)
            info = res[1]
            if not O.is_finite(x):
                continue  # nothing is claimed about the solution at this conditioning
            xL = np.concatenate([x[:, 0, t].astype(np.longdouble) for t in range(4)])
            rt = float(np.sqrt(np.sum((AL @ xL - bL) ** 2)) / np.sqrt(np.sum(bL ** 2)))
            rep = info.get("residual")
            states.append(digest(case["key"], prec, tol, x))
            if rep is None or not np.isfinite(rep):
                fails.append(fail("info.residual_truthful", f"prec={prec} tol={tol:g}: info.residual = {rep!r}", **tags))
            else:
                # a double-precision evaluation of ||Ax-b||/||b|| is only determined up to 64 u (||A|| ||x|| / ||b|| + 1)
                noise = 64 * O.U * (O.fro(A) * O.fro(x) / O.fro(b) + 1.0)
                if abs(rep - rt) > 1e-9 * rt + noise:
                    fails.append(fail("info.residual_truthful", f"prec={prec} tol={tol:g}: info.residual = {rep:.3e}, ||Ax-b||/||b|| evaluated in extended precision = {rt:.3e} "
                                      f"(cond 1e{k}, evaluation noise {noise:.1e})", **tags))
            if info.get("converged") and rt > 30 * tol * (10.0 ** k if prec == "left_lu" else 1.0) + 1e-13:
                fails.append(fail("converged=>small_residual", f"prec={prec} tol={tol:g}: converged=True with true residual {rt:.3e}", **tags))
    return {"key": case["key"], "fails": fails, "nontrivial": True, "digest": digest(A, b), "states": states, "transitions": len(states), "traces": 0 if fails else 1,
            "path": "illcond", "obs": [len(fails)]}


def run_fault(case, seed):
    import sys as _sys

    lib = load()
    sv = lib.solver
    S = sv.QGMRESSolver
    n = case["n"]
    fill = G.Fill(seed, stream=hash_tag(f"fault/{n}"))
    A = fill.quat(n, n, bits=4, lo=-32, hi=32) + 3.0 * O.qeye(n)
    b = fill.quat(n, 1, bits=3, lo=-16, hi=16)
    if not b.any():
        b[0, 0, 0] = 1.0
    Aq, bq = G.to_quat(A), G.to_quat(b)
    nb = O.fro(b)
    orig = sv.normQsparse
    hit = {"n": 0}

    def faulty(*a, **k):
        fr = _sys._getframe(1)
        loc = fr.f_locals
        # the Arnoldi remainder norm: called from _GMRESQsparse on its local vector v_0 inside the step loop
        if fr.f_code.co_name == "_GMRESQsparse" and a and a[0] is loc.get("v_0") and loc.get("m") == case["m_"] and loc.get("j") == case["j_"]:
            hit["n"] += 1
            return 0.0
        return orig(*a, **k)

    fails = []
    tags = {"cls": "fault", "n": n, "m": case["m_"], "j": case["j_"]}
    sv.normQsparse = faulty
    try:
        ok, res = call(S(tol=1e-10).solve, Aq, bq)
    finally:
        sv.normQsparse = orig
    path = "fault_not_reached"
    if hit["n"]:
        path = "fault_injected:" + ("raised" if not ok else "returned")
        if ok:
            x = G.from_quat(res[0]).reshape(n, 1, 4)
            info = res[1]
            if O.is_finite(x):
                tr = O.fro(O.qmatmul(A, x) - b) / nb
                rep = info.get("residual")
                if rep is None or not np.isfinite(rep) or abs(rep - tr) > 1e-9 * max(tr, 1e-300) + 1e-13:
                    fails.append(fail("info.residual_truthful", f"after an injected breakdown at cycle {case['m_']} step {case['j_']}: info.residual = {rep!r}, ||Ax-b||/||b|| = {tr!r}", **tags))
                if info.get("converged") and tr > 1e-8:
                    fails.append(fail("converged=>small_residual", f"after an injected breakdown at cycle {case['m_']} step {case['j_']}: converged=True with true residual {tr:.3e}", **tags))
                hx = [h[2] for h in (info.get("residual_history") or [])]
                if hx and abs(hx[-1] - tr) > 1e-9 * max(tr, 1e-300) + 1e-12:
                    fails.append(fail("history_last=true_residual", f"after an injected breakdown: history[-1] = {hx[-1]!r}, true residual {tr!r}", **tags))
            elif info.get("converged"):
                fails.append(fail("converged=>small_residual", "converged=True with a non-finite solution after an injected breakdown", **tags))
    return {"key": case["key"], "fails": fails, "nontrivial": bool(hit["n"]), "digest": digest(A, b, case["m_"], case["j_"]), "states": [path], "transitions": 1, "traces": 0 if fails else 1,
            "path": path, "obs": [len(fails), path]}


def run_fault_lu(case, seed):
    import sys as _sys

    lib = load()
    S = lib.solver.QGMRESSolver
    n = case["n"]
    fill = G.Fill(seed, stream=hash_tag(f"faultlu/{n}"))
    A = fill.quat(n, n, bits=4, lo=-32, hi=32) + 3.0 * O.qeye(n)
    b = np.zeros((n, 1, 4))
    if case["rhs"] == "e0":
        b[0, 0, 0] = 1.0
    else:
        b = fill.quat(n, 1, bits=3, lo=-16, hi=16)
        if not b.any():
            b[0, 0, 0] = 1.0
    Aq, bq = G.to_quat(A), G.to_quat(b)
    mods = [mm for nm, mm in list(_sys.modules.items()) if nm in ("decomp", "quatica.decomp", "decomp.LU", "quatica.decomp.LU") and hasattr(mm, "quaternion_lu")]
    saved = [(mm, mm.quaternion_lu) for mm in mods]
    hit = {"n": 0}

    def raising(*a, **k):
        hit["n"] += 1
        raise ValueError("Zero pivot encountered (injected)")

    for mm, _ in saved:
        mm.quaternion_lu = raising
    try:
        ok, res = call(S(tol=1e-10, preconditioner="left_lu").solve, Aq, bq)
    finally:
        for mm, f in saved:
            mm.quaternion_lu = f
    ok0, res0 = call(S(tol=1e-10).solve, Aq, bq)
    fails = []
    tags = {"cls": "fault_lu", "n": n}
    path = "fault_not_reached"
    if hit["n"]:
        path = "lu_fault_injected:" + ("raised" if not ok else "returned")
        if not ok:
            fails.append(fail("raised", f"left_lu with a failing LU: {type(res).__name__}: {res} (documented behaviour: continue without preconditioner)", **tags))
        else:
            x = G.from_quat(res[0]).reshape(n, 1, 4)
            info = res[1]
            tr = O.fro(O.qmatmul(A, x) - b) / O.fro(b)
            rep = info.get("residual")
            if rep is None or abs(rep - tr) > 1e-9 * max(tr, 1e-300) + 1e-13:
                fails.append(fail("info.residual_truthful", f"after the LU fallback: info.residual = {rep!r}, true {tr!r}", **tags))
            if tr > 1e-9:
                fails.append(fail("solves_within_n_cycles", f"after the LU fallback: true residual {tr:.3e}", **tags))
            if ok0 and G.from_quat(res0[0]).tobytes() != G.from_quat(res[0]).tobytes():
                fails.append(fail("fallback=unpreconditioned", "after the LU fallback the solution differs from the unpreconditioned run", **tags))
    return {"key": case["key"], "fails": fails, "nontrivial": bool(hit["n"]), "digest": digest(A, b), "states": [path], "transitions": 1, "traces": 0 if fails else 1, "path": "fault_" + path, "obs": [len(fails), path]}


def run_case(case, seed):
    if case["cls"] == "fault_lu":
        return run_fault_lu(case, seed)
    if case["cls"] == "illcond":
        return run_illcond(case, seed)
    if case["cls"] == "fault":
        return run_fault(case, seed)
    if case["cls"] == "smallint":
        return run_smallint(case, seed)
    lib = load()
    S = lib.solver.QGMRESSolver
    A, bs = build(case, seed)
    n = A.shape[0]
    condA = O.cond(A)
    nA = O.fro(A)
    fails = []
    states = []
    transitions = 0
    traces = 0
    paths = []
    sv_ = O.svals(A)
    if len(sv_) and sv_[-1] <= 1e-12 * sv_[0]:
        condA = math.inf  # singular system: outside the property's domain
    if not np.isfinite(condA) or condA > 1e6:
        return {"key": case["key"], "fails": [], "nontrivial": False, "skipped": "ill-conditioned (cond > 1e6)", "digest": digest(A)}
    floor = 64 * O.U * condA * n * 4  # attainable relative residual of a backward-stable solve is O(u cond); 256 u cond n holds on the pinned tree for every cell and seed tried
    Aq = relayout(G.to_quat(A), case.get("_lay", "C"))
    for bname, b in bs:
        tags = {"cls": case["cls"], "n": n, "rhs": bname, "scale": case["scale"]}
        bq = G.to_quat(b)
        nb = O.fro(b)
        xstar = O.solve(A, b) if nb > 0 else np.zeros((n, 1, 4))
        before = (Aq.tobytes(), bq.tobytes())

        def true_res(x):
            return O.fro(O.qmatmul(A, x) - b) / nb if nb > 0 else O.fro(O.qmatmul(A, x))

        def check_info(x, info, tol, prec, label):
            if not O.is_finite(x):
                fails.append(fail("x_finite", f"{label}: non-finite solution", **tags))
                return None
            tr = true_res(x)
            rep = info.get("residual")
            # two evaluations of ||Ax-b||/||b|| agree only up to the rounding of the products: 64 u ||A|| ||x|| / ||b||
            noise = 64 * O.U * (nA * O.fro(x) / nb + 1.0) if nb > 0 else 0.0
            if rep is None or not np.isfinite(rep) or abs(rep - tr) > 1e-9 * max(tr, 1e-300) + 1e-13 + noise:
                fails.append(fail("info.residual_truthful", f"{label}: info.residual = {rep!r}, ||Ax-b||/||b|| = {tr!r}", **tags))
            lim = 10 * tol * (max(1.0, condA) if prec == "left_lu" else 1.0) + floor
            if info.get("converged") and tr > lim:
                fails.append(fail("converged=>small_residual", f"{label}: converged=True with true residual {tr:.3e} > {lim:.3e}", **tags))
            if nb == 0 and (x != 0).any():
                fails.append(fail("b=0=>x=0", f"{label}: x != 0 for b = 0", **tags))
            return tr

        # ---- trajectory: budget sweep, tol tiny so that nothing stops early except convergence
        tol_traj = 1e-13
        xprev = np.zeros((n, 1, 4))
        prev_tr = 1.0 if nb > 0 else 0.0
        traj_ok = True
        mon = PathMonitor(S._GMRESQsparse, MON_PATTERNS, capture=("m", "j"))
        for cap in range(0, n):
            with mon:
                ok, res = call(S(tol=tol_traj, max_iter=cap).solve, Aq, bq)
            for ev in mon.events:
                paths.append(f"breakdown(m={ev[1]},j={ev[2]})")
            if not ok:
                fails.append(fail("raised", f"cap={cap}: {type(res).__name__}: {res}", **tags))
                traj_ok = False
                break
            x = G.from_quat(res[0]).reshape(n, 1, 4)
            info = res[1]
            tr = check_info(x, info, tol_traj, "none", f"cap={cap}")
            if tr is None:
                traj_ok = False
                break
            cyc = info.get("iterations")
            states.append(digest(cap, x))
            if nb > 0:
                # cycles actually run = min(cap+1, first converged); compare with the model when the run used cap+1 cycles
                if cyc == cap + 1:
                    opt, dim = krylov_opt(A, b, xprev, cap + 1)
                    opt /= nb
                    if tr > opt * (1 + 1e-6) + floor:
                        fails.append(fail("cycle_minimises_residual", f"cycle {cap + 1}: true residual {tr:.6e} > Krylov optimum {opt:.6e} (dim {dim})", cycle=cap + 1, **tags))
                        traj_ok = False
                    transitions += 1
                if tr > prev_tr * (1 + 1e-9) + floor:
                    fails.append(fail("residual_nonincreasing", f"cycle {cap + 1}: residual {tr:.6e} after {prev_tr:.6e}", cycle=cap + 1, **tags))
                    traj_ok = False
                hist = info.get("residual_history") or []
                hx = [h[2] for h in hist]
                if any(hx[i + 1] > hx[i] * (1 + 1e-9) + floor for i in range(len(hx) - 1)):
                    fails.append(fail("history_nonincreasing", f"cap={cap}: residual_history {hx}", **tags))
                if hx and abs(hx[-1] - tr) > 1e-9 * max(tr, 1e-300) + floor:
                    fails.append(fail("history_last=true_residual", f"cap={cap}: history[-1]={hx[-1]!r} true={tr!r}", **tags))
            prev_tr = min(prev_tr, tr) if nb > 0 else 0.0
            xprev = x
            if info.get("converged") or cyc < cap + 1:
                break
        traces += 1 if (traj_ok and not fails) else 0
        # ---- option cells
        ref_x = None
        for tol, cap, prec, sparse in itertools.product((1e-2, 1e-6, 1e-12), (None, n), ("none", "left_lu"), (False, True)):
            if sparse and (prec == "left_lu" or tol != 1e-6):
                continue  # LU needs a dense array; sparse storage is exercised with the middle tolerance
            Ain = to_sparse(lib, A) if sparse else Aq
            ok, res = call(S(tol=tol, max_iter=cap, preconditioner=prec).solve, Ain, bq)
            label = f"tol={tol:g},cap={cap},prec={prec},sparse={sparse}"
            t2 = {**tags, "prec": prec, "sparse": sparse}
            if not ok:
                fails.append(fail("raised", f"{label}: {type(res).__name__}: {res}", **t2))
                continue
            x = G.from_quat(res[0]).reshape(n, 1, 4)
            info = res[1]
            tr = check_info(x, info, tol, prec, label)
            if tr is None:
                continue
            lim = max(tol, floor) * (max(1.0, condA) if prec == "left_lu" else 1.0) * 1.01 + floor
            if tr > lim:
                fails.append(fail("solves_within_n_cycles", f"{label}: true residual {tr:.3e} > {lim:.3e} after {info.get('iterations')} cycles", **t2))
            if nb > 0:
                err = O.fro(x - xstar) / max(O.fro(xstar), 1e-300)
                if err > condA * max(tr, floor) * 1.01 + floor:
                    fails.append(fail("solution_accuracy", f"{label}: ||x - x*||/||x*|| = {err:.3e}, cond = {condA:.2e}, residual = {tr:.2e}", **t2))
            states.append(digest(label, x))
        # verbose=True must not change the solution or the reported fields (timing fields excluded)
        for prec in ("none", "left_lu"):
            okq, rq = quiet_call(S(tol=1e-8, max_iter=None, preconditioner=prec).solve, Aq, bq)
            okv, rv = quiet_call(S(tol=1e-8, max_iter=None, preconditioner=prec, verbose=True).solve, Aq, bq)
            if okq != okv or (okq and canon_value(rq) != canon_value(rv)):
                fails.append(fail("verbose_changes_result", f"prec={prec}: verbose=True {'raises ' + repr(rv) if not okv else 'returns a different value'}", prec=prec, **tags))
        if (Aq.tobytes(), bq.tobytes()) != before:
            fails.append(fail("input_unchanged", "solve modified A or b", **tags))
    return {
        "key": case["key"],
        "fails": fails[:30],
        "nontrivial": any(b.any() for _, b in bs),
        "digest": digest(A, *[b for _, b in bs]),
        "states": states,
        "transitions": max(transitions, 1),
        "traces": traces,
        "path": ";".join(sorted(set(paths))) or "no-breakdown",
        "obs": [len(fails), sorted(set(paths))],
    }


def summarize(results):
    pos = {}
    for r in results:
        p = r.get("path") or ""
        for tok in p.split(";"):
            if tok.startswith("breakdown"):
                pos[tok] = pos.get(tok, 0) + 1
    fi = {}
    for r in results:
        p_ = r.get("path") or ""
        if p_.startswith("fault_"):
            fi[p_] = fi.get(p_, 0) + 1
    return {"breakdown_positions_reached": dict(sorted(pos.items())), "zero_pivot_preconditioner_fallback": "unreachable_in_domain", "injected_breakdown_positions": fi}
