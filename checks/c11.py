"""C11 — rank, null spaces and determinants agree with the singular/eigen structure."""
from __future__ import annotations

import itertools
import math

import numpy as np

from checks import specgen as SG
from checks.common import hash_tag, relayout, xf_build, xf_names, hermitian_exact_zero, si_cells
from qmc import gen as G
from qmc import oracle as O
from qmc.loader import load
from qmc.run import call, digest, fail

ID = "C11"
LEVEL = "model_checking"
RULE = (
    "cases = shape x rank x composition of the rank into singular-value clusters x factor kind (rank/null-space cells), "
    "square spectra incl. singular (determinant cells), pairs of enumerated invertible factors (algebraic laws), Hermitian spectra (Moore); "
    "non-trivial = A non-zero; distinct = sha1(input, group)"
)
BOUNDS = {
    "quick": "m,n<=4 and strongly rectangular shapes 2x6, 6x2, 2x7, 3x9, 9x3, 1x8, 8x1 (+ whole-matrix scalings 2^-40, 2^20, 2^30), all ranks, all compositions, values {4,2,1,1/2} (gap >= 2^-1 above threshold), 3 factor kinds; laws on 6x6 pairs of invertible factors per size n<=3; Moore on all n<=3 compositions x sign patterns; exhaustive small-integer cells: all 2x2 over {0,1,-1,i,j,k}, 3x3 over {-1,0,1} (every 4th), 2x3/3x2 over {0,1,i,j} (every 4th); exhaustive Hermitian small-integer cells: diagonal over {-1,0,1}, off-diagonal over {0,1,-1,i,j,k}: all 2x2, every 3rd 3x3",
    "thorough": "m,n<=6, laws n<=5; exhaustive small-integer cells in full (2x2 over {0,1,-1,i,j,k}, 3x3 over {-1,0,1}, 2x3/3x2 over {0,1,i,j}) and 3x3 over {-1,0,1,2} (every 16th); exhaustive Hermitian small-integer cells in full (2x2, 3x3: diagonal {-1,0,1}, off-diagonal {0,1,-1,i,j,k})",
}
THOROUGH_STREAMS = 8
WALL_BUDGET = {"quick": 300, "thorough": 2400}
ASSUMPTIONS = ["no borderline singular values: non-zero values are >= 1/4, far above eps*max(m,n)*sigma_max"]



def _dedupe(cases_):
    """the same cell can be listed by two enumerations (e.g. a tall shape that the thorough bound also reaches): keep the first."""
    seen, out_ = set(), []
    for c in cases_:
        if c["key"] not in seen:
            seen.add(c["key"])
            out_.append(c)
    return out_


def cases(tier, seed):
    S = 4 if tier == "quick" else 6
    out = []
    shapes = list(itertools.product(range(1, S + 1), repeat=2))
    shapes += [sh for sh in ((2, 6), (6, 2), (2, 7), (3, 9), (9, 3), (1, 8), (8, 1)) if sh not in shapes]  # strongly rectangular
    for m, n in shapes:
        p = min(m, n)
        for vals, comp, r in SG.spectra(p):
            for kU, kV in SG.FACTOR_KINDS:
                out.append({"key": f"rank/{m}x{n}/r={r}/c={'-'.join(map(str, comp)) or '0'}/{kU}", "grp": "rank", "m": m, "n": n, "vals": vals, "kU": kU, "kV": kV})
            if r >= 1:
                for e in (-40, 20, 30):  # whole-matrix scalings ~1e-12, 1e6, 1e9: thresholds are relative
                    out.append({"key": f"rank/{m}x{n}/r={r}/c={'-'.join(map(str, comp))}/hh/scale=2^{e}", "grp": "rank", "m": m, "n": n, "vals": vals, "kU": "hh", "kV": "hh", "scale": e})
    # unusual-but-legal variants; spectrum / rank from the oracle
    for m, n in list(itertools.product(range(1, 5), repeat=2)) + [(6, 4), (8, 6), (7, 5), (4, 7), (12, 4)]:
        for nm in xf_names(m, n):
            if max(m, n) > 4 and nm in ("rowgraded", "colgraded"):
                continue  # grading 2^-9 per row reaches the rank threshold beyond 4 rows: borderline by construction, nothing to decide
            out.append({"key": f"rank/xf/{m}x{n}/{nm}", "grp": "rank", "m": m, "n": n, "vals": None, "kU": "xf", "kV": "xf", "xf": nm})
    # exhaustive small-integer matrices (every matrix over a small alphabet: exact ties, exact dependencies, exactly invariant subspaces)
    for m, n, names in si_cells(tier):
        for nm in names:
            out.append({"key": f"rank/si/{m}x{n}/{nm}", "grp": "rank", "m": m, "n": n, "vals": None, "kU": "xf", "kV": "xf", "xf": nm, "_fixed": True})
    for n_, _n2, names in si_cells(tier, hermitian=True):
        for nm in names:
            out.append({"key": f"moore/si/n={n_}/{nm}", "grp": "moore", "n": n_, "xf": nm, "_fixed": True})
    # exactly Hermitian inputs with one EXACT zero eigenvalue: rank n-1, one non-zero null vector on each side
    for n_ in (8, 12, 32, 33):
        for where in ("last", "first", "diag"):
            out.append({"key": f"rank/exactzero/n={n_}/{where}", "grp": "rank", "m": n_, "n": n_, "vals": None, "kU": "xf", "kV": "xf", "ez": where})
    # Kahan-type triangular matrices (1 on the diagonal, -1 above, conjugated by unit quaternions): every LU pivot is 1, sigma_min ~ 2^-n
    for n_ in (56, 64):
        out.append({"key": f"rank/kahan/n={n_}", "grp": "rank", "m": n_, "n": n_, "vals": None, "kU": "xf", "kV": "xf", "kahan": True})
    # Moore determinant of Hermitian non-singular matrices whose leading k x k principal block is singular (c c^H): an elimination without
    # pivoting meets a rounding-level pivot
    for n_ in (4, 5, 6):
        for k_ in (2, 3):
            for t in range(3):
                out.append({"key": f"moore/singlead/n={n_}/k={k_}/t={t}", "grp": "moore", "n": n_, "singlead": k_, "t": t})
    # large determinants: the product of all 4n real singular values overflows long before the Dieudonne determinant itself does
    for n_ in (64, 96):
        out.append({"key": f"bigdet/n={n_}", "grp": "bigdet", "n": n_})
    # exact integer rank-one outer products with one long dimension: the default threshold scales with max(m, n)
    for m, n in ((2, 128), (2, 300), (300, 2), (128, 2), (3, 200), (2, 400)):
        for t in range(3):
            out.append({"key": f"rank1long/{m}x{n}/t={t}", "grp": "rank1long", "m": m, "n": n, "t": t})
    for n in range(1, 5):
        for nm in xf_names(n, n, hermitian=True):
            out.append({"key": f"moore/xf/n={n}/{nm}", "grp": "moore", "n": n, "xf": nm})
    # documented options: explicit rank tolerance (incl. 0 in several spellings), null-space rtol on both sides and through every wrapper
    for m, n in ((3, 3), (4, 4), (5, 4), (4, 5), (2, 6), (6, 2)):
        out.append({"key": f"opts/{m}x{n}", "grp": "opts", "m": m, "n": n})
    L = 3 if tier == "quick" else 5
    for n in range(1, L + 1):
        for a, b in itertools.product(range(6), repeat=2):
            out.append({"key": f"laws/n={n}/G={a}/H={b}", "grp": "laws", "n": n, "a": a, "b": b})
        for comp in G.compositions(n):
            for signs in itertools.product((1, -1, 0), repeat=len(comp)):
                for kind in ("id", "mono", "hh"):
                    out.append({"key": f"moore/n={n}/c={'-'.join(map(str, comp))}/s={''.join(str(s + 1) for s in signs)}/{kind}", "grp": "moore", "n": n, "comp": list(comp), "signs": list(signs), "kind": kind})
    return _dedupe(out)


def invertible(idx, n, fill):
    """six enumerated invertible n x n factors."""
    if idx == 0:
        return G.unitary("mono", n, None, variant=1).astype(float)
    if idx == 1:
        return G.unitary("mono", n, None, variant=4).astype(float) * 2.0
    if idx == 2:  # unit upper triangular dyadic
        T = O.qeye(n)
        for i in range(n):
            for j in range(i + 1, n):
                T[i, j] = fill.dyadic((4,), bits=1, lo=-2, hi=2)
        return T
    if idx == 3:  # lower triangular with quaternion diagonal
        T = np.zeros((n, n, 4))
        for i in range(n):
            for j in range(i):
                T[i, j] = fill.dyadic((4,), bits=1, lo=-2, hi=2)
            T[i, i] = G.SIGNED_UNITS[(2 * i + 1) % 8].astype(float) * (0.5 if i % 2 else 2.0)
        return T
    if idx == 4:
        return G.unitary("hh", n, fill, variant=2)
    return G.with_spectrum(G.unitary("hh", n, fill, variant=3), [[4.0, 1.0, 0.5, 2.0, 0.25, 8.0][t % 6] for t in range(n)], G.unitary("hh", n, fill, variant=5))


def det_exp(A):
    return float(np.prod(O.svals(A))) if A.shape[0] else 1.0


def run_case(case, seed):
    lib = load()
    u = lib.utils
    fails = []
    grp = case["grp"]
    fill = G.Fill(seed, stream=hash_tag(case["key"]))
    if grp == "rank":
        m, n, vals = case["m"], case["n"], case["vals"]
        lay = "C"
        if case.get("xf") or case.get("ez") or case.get("kahan"):
            if case.get("ez"):
                A = hermitian_exact_zero(m, case["ez"], fill)
            elif case.get("kahan"):
                T_ = np.zeros((m, m, 4))
                for i in range(m):
                    T_[i, i, 0] = 1.0
                    T_[i, i + 1 :, 0] = -1.0
                Dq = np.zeros((m, m, 4))
                for i in range(m):
                    Dq[i, i] = G.SIGNED_UNITS[(3 * i + 1) % 8]
                A = O.qmatmul(O.qmatmul(Dq, T_), O.qH(Dq))
            else:
                A, lay = xf_build(case["xf"], m, n, fill)
            sv_ = O.svals(A)
            vals = [float(v) if v > 1e-11 * max(sv_[0], 1e-300) else 0.0 for v in sv_]
        else:
            A, Uq, Vq = SG.build(m, n, vals, case["kU"], case["kV"], fill, variant=len(case["key"]))
        if case.get("scale"):
            A = np.ldexp(A, case["scale"])
            vals = [float(np.ldexp(v, case["scale"])) for v in vals]
        info = SG.cluster_info(vals, m, n)
        r = info["rank"]
        tags = {"grp": "rank", **info, "m": m, "n": n}
        Aq = relayout(G.to_quat(A), lay)
        before = Aq.tobytes()
        nA = max(O.fro(A), 1.0) if not case.get("scale") else O.fro(A)
        ok, rk = call(u.rank, Aq)
        if not ok:
            fails.append(fail("raised", f"rank: {rk}", fn="rank", **tags))
        else:
            if rk != r:
                fails.append(fail("rank_value", f"rank={rk}, prescribed {r}", fn="rank", **tags))
            if not isinstance(rk, int):
                fails.append(fail("rank_type", f"{type(rk)}", fn="rank", **tags))
            quarter = np.linalg.matrix_rank(O.real_interleaved(A)) / 4
            if rk != quarter:
                fails.append(fail("rank_quarter_real", f"rank={rk}, real representation rank/4 = {quarter}", fn="rank", **tags))
        # the same array object with new contents (a work buffer refilled in place): the answer must follow the contents
        W_ = Aq.copy()
        ok_a, r_a = call(u.rank, W_)
        W_[...] = np.quaternion(0, 0, 0, 0)
        ok_b, r_b = call(u.rank, W_)
        W_[...] = Aq
        if W_.shape[0] >= 1:
            W_[0, :] = np.quaternion(0, 0, 0, 0)
        ok_c, r_c = call(u.rank, W_)
        A_c = np.concatenate([np.zeros_like(A[:1]), A[1:]], axis=0)
        exp_c = O.rank(A_c) if m >= 1 else 0
        sv_c = O.svals(A_c)
        borderline = bool(len(sv_c) and sv_c[0] > 0 and any(1e-15 * sv_c[0] < v < 1e-8 * sv_c[0] for v in sv_c))
        if not (ok_a and ok_b and ok_c) or r_b != 0 or (r_a == r and not borderline and r_c != exp_c):
            fails.append(fail("rank_follows_contents", f"same array object refilled in place: rank {r_a} -> zero matrix: {r_b} -> first row zeroed: {r_c} (expected {r}, 0, {exp_c})", fn="rank", **tags))
        ok, rkH = call(u.rank, G.to_quat(O.qH(A)))
        if not ok or rkH != r:
            fails.append(fail("rank_conj_transpose", f"rank(A^H)={rkH}", fn="rank", **tags))
        # invariance under invertible factors
        Gm = invertible(3, m, fill)
        Hm = invertible(5, n, fill)
        ok, rkG = call(u.rank, G.to_quat(O.qmatmul(O.qmatmul(Gm, A), Hm)))
        if not ok or rkG != r:
            fails.append(fail("rank_invariance", f"rank(GAH)={rkG} vs {r}", fn="rank", **tags))
        for side, dim, fn_w in (("right", n, u.quat_null_right), ("left", m, u.quat_null_left)):
            ok, N = call(u.quat_null_space, Aq, side)
            t2 = {**tags, "side": side, "nullity": dim - r}
            if not ok:
                fails.append(fail("raised", f"quat_null_space({side}): {N}", fn="null", **t2))
                continue
            Nf = G.from_quat(N) if N.size else np.zeros((dim, 0, 4))
            if Nf.shape[:2] != (dim, dim - r):
                fails.append(fail("null_shape", f"{side}: shape {Nf.shape[:2]} expected {(dim, dim - r)}", fn="null", **t2))
                continue
            if dim - r > 0:
                prod = O.qmatmul(A, Nf) if side == "right" else O.qmatmul(O.qH(A), Nf)
                if O.fro(prod) > O.budget(nA, dims=16 * max(m, n)) * max(1.0, O.fro(Nf)):
                    fails.append(fail("null_annihilated", f"{side}: ||A N||_F = {O.fro(prod):.3e}", fn="null", **t2))
                rkN = O.rank(Nf, tol=1e-8 * max(1.0, O.fro(Nf)))
                if rkN != dim - r:
                    fails.append(fail("null_independent", f"{side}: rank(N) = {rkN} but {dim - r} columns", fn="null", **t2))
            ok2, N2 = call(fn_w, Aq)
            ok3, N3 = call(u.quat_kernel, Aq, side)
            for nm, okx, Nx in (("wrapper", ok2, N2), ("quat_kernel", ok3, N3)):
                if not okx or G.from_quat(Nx).tobytes() != G.from_quat(N).tobytes() or Nx.shape != N.shape:
                    fails.append(fail("null_wrappers_agree", f"{side}: {nm} differs from quat_null_space", fn="null", **t2))
        if m == n:
            ok, d = call(u.det, Aq, "Dieudonne")
            exp = float(np.prod(vals))
            if not ok:
                fails.append(fail("raised", f"det: {d}", fn="det", **tags))
            else:
                if abs(float(d) - exp) > O.budget(max(exp, nA ** n), dims=16 * n):
                    fails.append(fail("dieudonne=prod_sigma", f"det={float(d)!r} expected {exp!r}", fn="det", **tags))
                # (a full-rank graded input may have a determinant below the absolute budget: nothing to decide then)
                if not (r == n and exp <= 10 * O.budget(nA ** n, dims=16 * n)) and (r < n) != (abs(float(d)) <= O.budget(nA ** n, dims=16 * n)):
                    fails.append(fail("det_zero_iff_singular", f"det={float(d)!r} rank={r} n={n}", fn="det", **tags))
                ok2, d2 = call(u.det, Aq, "Dieudonné")
                if not ok2 or float(d2) != float(d):
                    fails.append(fail("det_spelling", "Dieudonné vs Dieudonne differ", fn="det", **tags))
                for c in (0.5, 4.0):
                    ok3, dc = call(u.det, G.to_quat(A * c), "Dieudonne")
                    if not ok3 or abs(float(dc) - c ** n * float(d)) > 1e-12 * max(1.0, abs(c ** n * float(d))):
                        fails.append(fail("det_homogeneous", f"det({c}A)={float(dc)!r} vs {c ** n * float(d)!r}", fn="det", **tags))
        if Aq.tobytes() != before:
            fails.append(fail("input_unchanged", "argument modified", **tags))
        return {"key": case["key"], "fails": fails, "nontrivial": r > 0, "digest": digest(A, "rank"),
                "path": f"r<{'p' if r < min(m, n) else '=p'},nullR={min(n - r, 2)},nullL={min(m - r, 2)},mult={min(info['max_mult'], 2)}", "obs": [f["clause"] for f in fails]}
    if grp == "bigdet":
        n = case["n"]
        A = fill.quat(n, n, bits=2, lo=-12, hi=12)  # entries of size ~1.7: |det| ~ e^(0.8 n)... well inside the double range, det^4 is not
        sv_ = O.svals(A)
        logd = float(np.sum(np.log(sv_)))
        ok, d = call(u.det, G.to_quat(A), "Dieudonne")
        tags = {"grp": "bigdet", "n": n}
        if not ok or not np.isfinite(float(d)) or float(d) <= 0 or abs(math.log(float(d)) - logd) > 1e-8 * max(1.0, abs(logd)):
            fails.append(fail("dieudonne=prod_sigma", f"n={n}: det = {d!r}, log(prod sigma_i) = {logd!r} (prod = {math.exp(logd) if logd < 700 else 'overflow'})", fn="det", **tags))
        h = n // 2
        A1, A2 = A[:h, :h], A[h:, h:]
        ok2, r2 = call(lambda: (u.det(G.to_quat(A1), "Dieudonne"), u.det(G.to_quat(A2), "Dieudonne"), u.det(G.to_quat(O.qmatmul(A1, A2)), "Dieudonne")))
        if not ok2 or not all(np.isfinite(float(x)) for x in r2) or abs(math.log(float(r2[2])) - math.log(float(r2[0])) - math.log(float(r2[1]))) > 1e-8 * (1 + abs(math.log(float(r2[2])))):
            fails.append(fail("det_multiplicative", f"n={h}: det(A1 A2) = {r2[2] if ok2 else r2!r} vs det(A1) det(A2)", fn="det", **tags))
        return {"key": case["key"], "fails": fails, "nontrivial": True, "digest": digest(A, "bigdet"), "path": "bigdet", "obs": [f["clause"] for f in fails]}
    if grp == "rank1long":
        m, n = case["m"], case["n"]
        a = fill.quat_int(m, 1, -3, 3).astype(float)
        b = fill.quat_int(1, n, -3, 3).astype(float)
        if not a.any():
            a[0, 0, 1] = 1.0
        if not b.any():
            b[0, 0, 2] = 1.0
        A = O.qmatmul(a, b)
        ok, rk = call(u.rank, G.to_quat(A))
        okh, rkh = call(u.rank, G.to_quat(O.qH(A)))
        if not ok or rk != 1 or not okh or rkh != 1:
            fails.append(fail("rank_value", f"rank of an exact rank-one {m}x{n} outer product = {rk} (conjugate transpose: {rkh}); documented threshold eps*max(m,n)*s_max", fn="rank", grp="rank1long", m=m, n=n))
        return {"key": case["key"], "fails": fails, "nontrivial": True, "digest": digest(A, "r1"), "path": "rank1long", "obs": [f["clause"] for f in fails]}
    if grp == "opts":
        m, n = case["m"], case["n"]
        p = min(m, n)
        vals = [1.0, 0.5, 2.0 ** -20, 2.0 ** -46][:p] if p > 2 else [1.0, 2.0 ** -20][:p]
        A, Uq, Vq = SG.build(m, n, vals, "hh", "hh", fill, variant=7)
        Aq = G.to_quat(A)
        before = Aq.tobytes()
        tags = {"grp": "opts", "m": m, "n": n}
        evals = 0
        for tname, tol in (("None", None), ("0", 0), ("0.0", 0.0), ("np.float64(0)", np.float64(0.0)), ("1e-30", 1e-30), ("2^-30", 2.0 ** -30), ("2^-10", 2.0 ** -10), ("0.75", 0.75), ("2.0", 2.0)):
            exp = sum(1 for v in vals if v > (tol if tol is not None else np.finfo(float).eps * max(m, n) * vals[0]))
            for nmA, Aarg, in (("A", Aq), ("A^H", G.to_quat(O.qH(A)))):
                ok, rk = call(u.rank, Aarg, tol)
                evals += 1
                if not ok or rk != exp:
                    fails.append(fail("rank_tolerance_option", f"rank({nmA}, tol={tname}) = {rk}, singular values {vals} -> expected {exp}", fn="rank", tol=tname, **tags))
        # exact singular values (monomial factors), one of them positive but below the default threshold
        if p >= 2:
            mv = ([1.0, 0.5, 0.25][: p - 1]) + [2.0 ** -60]
            Am, _, _ = SG.build(m, n, mv, "mono", "mono", fill, variant=3)
            for tname, tol in (("None", None), ("0", 0), ("0.0", 0.0), ("np.float64(0)", np.float64(0.0)), ("2^-70", 2.0 ** -70), ("2^-50", 2.0 ** -50)):
                exp = sum(1 for v in mv if v > (tol if tol is not None else np.finfo(float).eps * max(m, n) * mv[0]))
                ok, rk = call(u.rank, G.to_quat(Am), tol)
                evals += 1
                if not ok or rk != exp:
                    fails.append(fail("rank_tolerance_option", f"rank(monomial, tol={tname}) = {rk}, exact singular values {mv} -> expected {exp}", fn="rank", tol=tname, **tags))
        for rname, rtol in (("default", None), ("2^-10", 2.0 ** -10), ("2^-30", 2.0 ** -30), ("1e-15", 1e-15), ("0.75", 0.75)):
            thr = (1e-10 if rtol is None else rtol) * vals[0]
            r_exp = sum(1 for v in vals if v > thr)
            dropped = max([v for v in vals if v <= thr], default=0.0)
            for side, dim in (("right", n), ("left", m)):
                calls = [("quat_null_space", lambda: u.quat_null_space(Aq, side) if rtol is None else u.quat_null_space(Aq, side, rtol)),
                         ("quat_null_space_kw", lambda: u.quat_null_space(Aq, side=side) if rtol is None else u.quat_null_space(Aq, side=side, rtol=rtol)),
                         ("quat_kernel", lambda: u.quat_kernel(Aq, side) if rtol is None else u.quat_kernel(Aq, side, rtol)),
                         ("wrapper", lambda: (u.quat_null_right if side == "right" else u.quat_null_left)(Aq) if rtol is None else (u.quat_null_right if side == "right" else u.quat_null_left)(Aq, rtol))]
                for cname, f in calls:
                    ok, N = call(f)
                    evals += 1
                    t2 = {**tags, "side": side, "rtol": rname, "via": cname}
                    if not ok:
                        fails.append(fail("raised", f"{cname}({side}, rtol={rname}): {N}", fn="null_opts", **t2))
                        continue
                    Nf = G.from_quat(N) if N.size else np.zeros((dim, 0, 4))
                    if Nf.shape[:2] != (dim, dim - r_exp):
                        fails.append(fail("null_rtol_option", f"{cname}({side}, rtol={rname}): shape {Nf.shape[:2]}, singular values {vals} -> expected {(dim, dim - r_exp)}", fn="null_opts", **t2))
                        continue
                    if dim - r_exp > 0:
                        prod = O.qmatmul(A, Nf) if side == "right" else O.qmatmul(O.qH(A), Nf)
                        if O.fro(prod) > (dropped * (1 + 1e-6) + O.budget(1.0, dims=16 * max(m, n))) * max(1.0, O.fro(Nf)):
                            fails.append(fail("null_annihilated", f"{cname}({side}, rtol={rname}): ||A N||_F = {O.fro(prod):.3e} > largest dropped singular value {dropped:.3e}", fn="null_opts", **t2))
        if Aq.tobytes() != before:
            fails.append(fail("input_unchanged", "argument modified", **tags))
        return {"key": case["key"], "fails": fails, "nontrivial": True, "digest": digest(A, "opts"), "path": "opts", "evals": evals, "obs": [f["clause"] for f in fails]}
    if grp == "laws":
        n = case["n"]
        Gm = invertible(case["a"], n, fill)
        Hm = invertible(case["b"], n, fill)
        tags = {"grp": "laws", "n": n}
        ok, r = call(lambda: (u.det(G.to_quat(Gm), "Dieudonne"), u.det(G.to_quat(Hm), "Dieudonne"), u.det(G.to_quat(O.qmatmul(Gm, Hm)), "Dieudonne")))
        if not ok:
            fails.append(fail("raised", f"{r}", fn="det", **tags))
        else:
            dG, dH, dGH = map(float, r)
            if abs(dGH - dG * dH) > 1e-10 * max(1.0, abs(dG * dH)):
                fails.append(fail("det_multiplicative", f"det(GH)={dGH!r} vs det(G)det(H)={dG * dH!r}", fn="det", **tags))
            if abs(dG - det_exp(Gm)) > 1e-10 * max(1.0, det_exp(Gm)):
                fails.append(fail("dieudonne=prod_sigma", f"det(G)={dG!r} vs {det_exp(Gm)!r}", fn="det", **tags))
            if dG <= 0 or dH <= 0:
                fails.append(fail("det_positive_invertible", f"{dG} {dH}", fn="det", **tags))
        ok, rr = call(lambda: (u.rank(G.to_quat(Gm)), u.rank(G.to_quat(O.qmatmul(Gm, Hm)))))
        if not ok or rr != (n, n):
            fails.append(fail("rank_value", f"rank of invertible factors {rr}", fn="rank", **tags))
        return {"key": case["key"], "fails": fails, "nontrivial": True, "digest": digest(Gm, Hm), "path": "laws", "obs": [f["clause"] for f in fails]}
    # Moore determinant
    n = case["n"]
    lay = "C"
    if case.get("singlead"):
        k_ = case["singlead"]
        Bh = fill.quat(n, n, bits=3, lo=-12, hi=12)
        A = 0.5 * (Bh + O.qH(Bh))
        cvec = fill.quat(k_, 1, bits=2, lo=-6, hi=6)
        if not cvec.any():
            cvec[0, 0, 1] = 1.0
        cvec = cvec / (3.0 if case["t"] else 1.0)  # t = 0: exactly singular leading block (dyadic); t > 0: singular up to rounding
        A[:k_, :k_] = O.qmatmul(cvec, O.qH(cvec))
        for i in range(n):
            A[i, i, 1:] = 0.0
        A = 0.5 * (A + O.qH(A))
        lam = O.eigvals_herm(A).tolist()
    elif case.get("xf"):
        A, lay = xf_build(case["xf"], n, n, fill, hermitian=True)
        lam = O.eigvals_herm(A).tolist()
    else:
        lam = []
        for c, s, v in zip(case["comp"], case["signs"], (2.0, 0.5, 4.0, 1.0, 0.25, 8.0)):
            lam += [s * v] * c
        V = G.unitary(case["kind"], n, fill, variant=n)
        A = G.herm_with_spectrum(V, lam)
    tags = {"grp": "moore", "n": n}
    ok, d = call(u.det, relayout(G.to_quat(A), lay), "Moore")
    exp = float(np.prod(lam))
    if not ok:
        fails.append(fail("raised", f"det Moore: {type(d).__name__}: {d}", fn="det", **tags))
    else:
        dv = complex(d)
        if abs(dv.imag) > 1e-12 or abs(dv.real - exp) > 1e-10 * max(1.0, abs(exp)) + 1e-13:
            fails.append(fail("moore=prod_lambda", f"det={dv!r} expected {exp!r} (lambda={lam})", fn="det", **tags))
    return {"key": case["key"], "fails": fails, "nontrivial": bool(A.any()), "digest": digest(A, "moore"), "path": "moore", "obs": [f["clause"] for f in fails]}
