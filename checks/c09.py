"""C09 — Hessenberg reduction is a unitary similarity to upper Hessenberg form."""
from __future__ import annotations

import itertools

import numpy as np

from checks.common import hash_tag, relayout, xf_build, xf_names, si_cells
from qmc import gen as G
from qmc import oracle as O
from qmc.loader import load
from qmc.run import call, digest, fail

ID = "C09"
LEVEL = "model_checking"
RULE = (
    "cases = n x structure class (generic, hermitian, triu, tril, hessenberg, zero, identity, rank1, scaled, "
    "zero-below-subdiagonal column masks, Q8 strictly-lower support masks) ; non-trivial = A non-zero; distinct = sha1(input)"
)
BOUNDS = {
    "quick": "n<=5; structure classes incl. nearly-Hermitian / nearly-triangular / nearly-Hessenberg perturbations (2^-20..2^-30, float32 triangle); all 2^(n-2) column masks x 2 entry classes; all 2^(n(n-1)/2) lower support masks for n<=4; scalings 2^+-27; exhaustive small-integer cells: all 2x2 over {0,1,-1,i,j,k}, 3x3 over {-1,0,1} (every 4th), 2x3/3x2 over {0,1,i,j} (every 4th); exhaustive Hermitian small-integer cells: diagonal over {-1,0,1}, off-diagonal over {0,1,-1,i,j,k}: all 2x2, every 3rd 3x3; tiny column segments 2^-560/2^-700/2^-1040 at column 0 and 2; xf tinysub",
    "thorough": "n<=7, 3 fill rows; exhaustive small-integer cells in full (2x2 over {0,1,-1,i,j,k}, 3x3 over {-1,0,1}, 2x3/3x2 over {0,1,i,j}) and 3x3 over {-1,0,1,2} (every 16th); exhaustive Hermitian small-integer cells in full (2x2, 3x3: diagonal {-1,0,1}, off-diagonal {0,1,-1,i,j,k})",
}
THOROUGH_STREAMS = 8
WALL_BUDGET = {"quick": 300, "thorough": 2400}
ASSUMPTIONS = ["spectrum invariant: eigenvalues of the complex adjoint compared as multisets with a conditioning-free bound only for normal inputs; otherwise characteristic-polynomial coefficients (trace powers) are compared"]

STRUCT = ["generic", "hermitian", "triu", "tril", "hess", "zero", "identity", "rank1", "scaled+27", "scaled-27", "ints",
          "near_hermitian_2^-20", "near_hermitian_2^-30", "near_hermitian_f32", "near_triu_2^-25", "near_hess_2^-25"]



def _dedupe(cases_):
    """the same cell can be listed by two enumerations (e.g. a tall shape that the thorough bound also reaches): keep the first."""
    seen, out_ = set(), []
    for c in cases_:
        if c["key"] not in seen:
            seen.add(c["key"])
            out_.append(c)
    return out_


def cases(tier, seed):
    N = 5 if tier == "quick" else 7
    rows = 1 if tier == "quick" else 3
    out = []
    for n in range(1, N + 1):
        for st in STRUCT:
            for row in range(rows):
                out.append({"key": f"{st}/n={n}/row={row}", "grp": "struct", "st": st, "n": n, "row": row})
        for lay in ("F", "T", "view", "ro"):
            out.append({"key": f"generic/n={n}/layout={lay}", "grp": "struct", "st": "generic", "n": n, "row": 0, "lay": lay})
        if n >= 3:
            for mask in range(1 << (n - 2)):
                for cls in ("generic", "ints"):
                    for row in range(rows):
                        out.append({"key": f"colmask/n={n}/z={mask:0{n - 2}b}/{cls}/row={row}", "grp": "colmask", "n": n, "mask": mask, "cls": cls, "row": row})
        if 2 <= n <= 4:
            npairs = n * (n - 1) // 2
            for mask in range(1 << npairs):
                out.append({"key": f"q8lower/n={n}/s={mask:0{npairs}b}", "grp": "q8lower", "n": n, "mask": mask, "row": 0})
    for n in range(3, N + 2):
        for pband in range(1, n - 1):  # exact zeros below the p-th sub-diagonal (lower bandwidth p), generic elsewhere
            for cls in ("generic", "ints"):
                out.append({"key": f"lowerband/n={n}/p={pband}/{cls}", "grp": "band", "n": n, "p": pband, "cls": cls, "row": 0})
        for kind in G.SPECIAL_KINDS:
            out.append({"key": f"special/{kind}/n={n}", "grp": "special", "kind": kind, "n": n, "row": 0})
        for mask in G.COMPONENT_MASKS:
            out.append({"key": f"compmask/n={n}/{G.mask_name(mask)}", "grp": "compmask", "n": n, "mask": mask, "row": 0})
    for n in range(2, N + 2):
        for nm in xf_names(n, n):
            if nm.startswith("cm:") or nm.startswith("sp:") or nm.startswith("lay:"):
                continue  # covered by the compmask / special / layout groups above
            out.append({"key": f"xf/n={n}/{nm}", "grp": "xf", "n": n, "xf": nm, "row": 0})
        for nm in xf_names(n, n, hermitian=True):
            if not nm.startswith("lay:"):
                out.append({"key": f"xfh/n={n}/{nm}", "grp": "xfh", "n": n, "xf": nm, "row": 0})
    # exhaustive small-integer matrices (every matrix over a small alphabet: exact ties, exact dependencies, exactly invariant subspaces)
    for m_, n_, names in si_cells(tier):
        if m_ == n_:
            for nm in names:
                out.append({"key": f"si/n={n_}/{nm}", "grp": "xf", "n": n_, "xf": nm, "row": 0, "_fixed": True})
    for n_, _n2, names in si_cells(tier, hermitian=True):
        for nm in names:
            out.append({"key": f"sih/n={n_}/{nm}", "grp": "xfh", "n": n_, "xf": nm, "row": 0, "_fixed": True})
    for n in (3, 4, 5, 6):
        for c in (0, 2):
            if c + 2 > n - 1 + (1 if c == 0 else 0) and c:
                continue
            for e in (-700, -1040, -560):
                out.append({"key": f"tinycol/n={n}/c={c}/e={e}", "grp": "tinycol", "n": n, "c": c, "e": e, "row": 0})
    for n in (8, 9, 12, 17):
        for st in ("generic", "hermitian", "hess", "ints"):
            out.append({"key": f"{st}/n={n}/large", "grp": "struct", "st": st, "n": n, "row": 0})
        out.append({"key": f"colmask/n={n}/large", "grp": "colmask", "n": n, "mask": 0b101, "cls": "ints", "row": 0})
    return _dedupe(out)


def make(case, seed):
    n = case["n"]
    fill = G.Fill(seed + 13 * case["row"], stream=hash_tag(case["key"]))
    grp = case["grp"]
    if grp == "struct":
        st = case["st"]
        A = fill.quat(n, n, bits=4, lo=-40, hi=40)
        if st == "hermitian":
            A = 0.5 * (A + O.qH(A))
        elif st == "triu":
            for i in range(n):
                A[i, :i] = 0
        elif st == "tril":
            for i in range(n):
                A[i, i + 1 :] = 0
        elif st == "hess":
            for i in range(n):
                A[i, : max(i - 1, 0)] = 0
        elif st == "zero":
            A[:] = 0
        elif st == "identity":
            A = O.qeye(n)
        elif st == "rank1":
            A = O.qmatmul(fill.quat(n, 1, bits=2, lo=-6, hi=6), fill.quat(1, n, bits=2, lo=-6, hi=6))
        elif st == "scaled+27":
            A = np.ldexp(A, 27)
        elif st == "scaled-27":
            A = np.ldexp(A, -27)
        elif st == "ints":
            A = fill.quat_int(n, n, -3, 3).astype(float)
        elif st.startswith("near_hermitian"):
            Hm = 0.5 * (A + O.qH(A))
            if st.endswith("f32"):  # one triangle stored in single precision
                A = Hm.copy()
                for i in range(n):
                    A[i, :i] = Hm[i, :i].astype(np.float32).astype(float)
            else:
                e = int(st.split("^")[1])
                A = Hm + np.ldexp(fill.quat(n, n, bits=4, lo=-40, hi=40), e)
        elif st == "near_triu_2^-25":
            P_ = np.ldexp(fill.quat(n, n, bits=4, lo=-40, hi=40), -25)
            for i in range(n):
                A[i, :i] = P_[i, :i]
        elif st == "near_hess_2^-25":
            P_ = np.ldexp(fill.quat(n, n, bits=4, lo=-40, hi=40), -25)
            for i in range(n):
                A[i, : max(i - 1, 0)] = P_[i, : max(i - 1, 0)]
        return A
    if grp == "band":
        A = fill.quat(n, n, bits=4, lo=-40, hi=40) if case["cls"] == "generic" else fill.quat_int(n, n, -3, 3).astype(float)
        for i in range(n):
            A[i, : max(i - case["p"], 0)] = 0.0
        return A
    if grp in ("xf", "xfh"):
        return xf_build(case["xf"], n, n, fill, hermitian=(grp == "xfh"))[0]
    if grp == "special":
        return G.special(case["kind"], n, fill)
    if grp == "compmask":
        A = fill.quat_int(n, n, -3, 3).astype(float)
        A[A == 0] = 1.0
        return G.apply_component_mask(A, case["mask"])
    if grp == "tinycol":
        # the column segment reduced at step c is non-zero but far below the underflow threshold of its own square (2^-700, 2^-1040 subnormal):
        # the step must be (numerically) the identity, never a division by an underflowed norm
        A = fill.quat(n, n, bits=4, lo=-40, hi=40)
        c = case["c"]
        if c:
            A[c:, :c] = 0.0  # decoupled leading block: nothing mixes into column c before its own step
        A[c + 1 :, c] = np.ldexp(A[c + 1 :, c] + 1.0, case["e"])
        return A
    if grp == "colmask":
        A = fill.quat(n, n, bits=4, lo=-40, hi=40) if case["cls"] == "generic" else fill.quat_int(n, n, -3, 3).astype(float)
        for k in range(n - 2):
            if (case["mask"] >> k) & 1:
                A[k + 2 :, k] = 0.0  # column k already reduced: alpha = 0 branch
        return A
    # q8lower: Q8 letters on the masked strictly-lower support, small ints elsewhere
    A = fill.quat_int(n, n, -2, 2).astype(float)
    pairs = [(i, j) for i in range(n) for j in range(i)]
    for b, (i, j) in enumerate(pairs):
        if (case["mask"] >> b) & 1:
            A[i, j] = G.SIGNED_UNITS[(3 * b + i) % 8]
        else:
            A[i, j] = 0
    return A


def run_case(case, seed):
    lib = load()
    A = make(case, seed)
    n = A.shape[0]
    tags = {"grp": case["grp"], "n": n}
    Aq = relayout(G.to_quat(A), case.get("lay", "C"))
    before = Aq.tobytes()
    ok, res = call(lib.hess.hessenbergize, Aq)
    fails = []
    nA = max(O.fro(A), 1e-300)
    bud = O.budget(nA, dims=16 * n * n)
    if Aq.tobytes() != before:
        fails.append(fail("input_unchanged", "hessenbergize modified its argument", **tags))
    if not ok:
        fails.append(fail("raised", f"{type(res).__name__}: {res}", **tags))
    else:
        Pq, Hq = res
        if Hq is Aq or np.shares_memory(Hq, Aq):
            fails.append(fail("aliasing", "returned H shares memory with the argument", **tags))
        P, H = G.from_quat(Pq), G.from_quat(Hq)
        if P.shape[:2] != (n, n) or H.shape[:2] != (n, n) or not (O.is_finite(P) and O.is_finite(H)):
            fails.append(fail("shapes_finite", f"P{P.shape} H{H.shape}", **tags))
        else:
            dP = O.unitarity_defect(P)
            if dP > O.budget(1.0, dims=16 * n * n):
                fails.append(fail("P_unitary", f"||P^H P - I||_F = {dP:.3e}", **tags))
            err = O.fro(O.qmatmul(O.qmatmul(P, A), O.qH(P)) - H)
            if err > bud:
                fails.append(fail("H=PAP^H", f"||P A P^H - H||_F = {err:.3e} (||A||={nA:.3e})", **tags))
            low = max((O.qabs(H[i, j]) for i in range(n) for j in range(n) if i > j + 1), default=0.0)
            if low > bud:
                fails.append(fail("H_hessenberg", f"max |H_ij| for i>j+1 is {low:.3e}", **tags))
            if abs(O.fro(H) - O.fro(A)) > bud:
                fails.append(fail("norm_preserved", f"||H||_F={O.fro(H)!r} ||A||_F={O.fro(A)!r}", **tags))
            # spectrum-determining invariants: Re tr(A^k), k=1..n (similarity invariants of chi(A))
            cA, cH = O.complex_adjoint(A), O.complex_adjoint(H)
            MA, MH = np.eye(2 * n), np.eye(2 * n)
            for k in range(1, n + 1):
                MA, MH = MA @ cA, MH @ cH
                ta, th = np.trace(MA), np.trace(MH)
                if abs(ta - th) > O.budget(nA ** k, dims=64 * n * n * k):
                    fails.append(fail("spectral_invariants", f"tr chi(A)^{k} = {ta} vs tr chi(H)^{k} = {th}", **tags))
                    break
            ok2, ih = call(lib.hess.is_hessenberg, Hq)
            if nA <= 1e6 and (not ok2 or not ih):
                fails.append(fail("is_hessenberg_predicate", f"is_hessenberg(H) = {ih}", **tags))
    return {
        "key": case["key"],
        "fails": fails,
        "nontrivial": bool(A.any()),
        "digest": digest(A),
        "path": case["grp"] + (f"/{case.get('st')}" if case["grp"] == "struct" else ""),
        "obs": [f["clause"] for f in fails],
        "sample": {"n": n, "grp": case["grp"]},
    }
