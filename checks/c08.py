"""C08 — Hermitian eigendecomposition and tridiagonalisation are exact unitary reductions."""
from __future__ import annotations

import itertools

import numpy as np

from checks.common import hash_tag, relayout, xf_build, xf_names, canon_value, quiet_call, si_cells
from qmc import gen as G
from qmc import oracle as O
from qmc.loader import load
from qmc.run import call, digest, fail

ID = "C08"
LEVEL = "model_checking"
RULE = (
    "cases = (a) n x composition of n into eigenvalue clusters x injective value assignment from {2,1,0,-1,-2} x eigenbasis kind; "
    "(b) small-integer Hermitian matrices by off-diagonal support mask x letter x diagonal; (d) scalings 2^+-27; (e) rejection cells; "
    "both entry points (tridiagonalize, quaternion_eigendecomposition); non-trivial = A non-zero; distinct = sha1(input, entry)"
)
BOUNDS = {
    "quick": "n<=4 all compositions x all injective value assignments (capped 24 per composition) x {id, monomial, Householder}; n=2 all 144 integer matrices; n=3 8 masks x 5 letters x 3 diagonals; n=4 64 masks; exhaustive Hermitian small-integer cells: diagonal over {-1,0,1}, off-diagonal over {0,1,-1,i,j,k}: all 2x2, every 3rd 3x3; mixed-scale single-defect rejects (2^28 entry next to a 0.75 / 2^-7 defect); xf tinysub",
    "thorough": "n<=6, up to 60 value assignments per composition; exhaustive Hermitian small-integer cells in full (2x2, 3x3: diagonal {-1,0,1}, off-diagonal {0,1,-1,i,j,k})",
}
THOROUGH_STREAMS = 8
WALL_BUDGET = {"quick": 300, "thorough": 2400}
ASSUMPTIONS = ["spectrum oracle: eigvalsh of the complex adjoint (each eigenvalue twice, pairing by reshape)"]
VALUES = [2.0, 1.0, 0.0, -1.0, -2.0]
LET3 = [(1, 0, 0, 0), (0, 1, 0, 0), (0, 0, 1, 0), (0, 0, 0, 1), (1, 1, 0, 0)]


def cases(tier, seed):
    N = 4 if tier == "quick" else 6
    cap = 24 if tier == "quick" else 60
    out = []
    for n in range(1, N + 1):
        for comp in G.compositions(n):
            assigns = list(itertools.permutations(range(len(VALUES)), len(comp)))
            if len(assigns) > cap:
                assigns = assigns[:: max(1, len(assigns) // cap)][:cap]
            for asg in assigns:
                for kind in ("id", "mono", "hh"):
                    if n == 1 and kind != "id":
                        continue
                    lam = []
                    for c, a in zip(comp, asg):
                        lam += [VALUES[a]] * c
                    out.append({"key": f"spec/n={n}/c={'-'.join(map(str, comp))}/v={''.join(map(str, asg))}/{kind}", "grp": "spec", "n": n, "lam": lam, "kind": kind, "scale": 0})
    # scalings of a sub-family
    for n in range(2, N + 1):
        for comp in G.compositions(n):
            lam = []
            for c, a in zip(comp, range(len(comp))):
                lam += [VALUES[(a * 2) % 5]] * c
            for e in (-27, 27):
                out.append({"key": f"scaled/n={n}/c={'-'.join(map(str, comp))}/e={e}", "grp": "spec", "n": n, "lam": lam, "kind": "hh", "scale": e})
    for d0, d1 in itertools.product((-1, 0, 1, 2), repeat=2):
        for li in range(9):
            out.append({"key": f"int2/d={d0},{d1}/l={li}", "grp": "int", "n": 2, "diag": [d0, d1], "mask": 1, "letter": list(map(int, G.Q8_LETTERS[li]))})
    for mask in range(8):
        for li, L in enumerate(LET3):
            for dg in ([0, 0, 0], [1, 1, 1], [0, 1, 0]):
                out.append({"key": f"int3/mask={mask:03b}/l={li}/d={''.join(map(str, dg))}", "grp": "int", "n": 3, "diag": dg, "mask": mask, "letter": list(L)})
    for mask in range(64):
        out.append({"key": f"int4/mask={mask:06b}", "grp": "int", "n": 4, "diag": [0, 1, 0, 2], "mask": mask, "letter": [1, 0, 1, 0]})
    for n in (2, 3, 4, 8, 12, 17):
        out.append({"key": f"laplace/n={n}", "grp": "laplace", "n": n})
    for n in (8, 9, 12):
        for kind in ("mono", "hh"):
            lam = [float(v) for v in ([3, 3, 2, 1, 1, 1, 0, -1, -2, -2, 5, 7][:n])]
            out.append({"key": f"spec/n={n}/large/{kind}", "grp": "spec", "n": n, "lam": lam, "kind": kind, "scale": 0})
    # unusual-but-legal Hermitian variants (component supports, modulus ties, congruence grading, circulant, special matrices, layouts)
    for n in range(1, N + 2):
        for nm in xf_names(n, n, hermitian=True):
            out.append({"key": f"xf/n={n}/{nm}", "grp": "xf", "n": n, "xf": nm})
    # exhaustive small-integer Hermitian matrices (every matrix over a small alphabet: exact ties, exact dependencies, exactly invariant subspaces)
    for n_, _n2, names in si_cells(tier, hermitian=True):
        for nm in names:
            out.append({"key": f"si/n={n_}/{nm}", "grp": "xf", "n": n_, "xf": nm, "_fixed": True})
    # distinct eigenvalues closer than any "looks repeated" heuristic (relative gaps 3e-6, 8e-6, 2^-30) next to well separated ones
    CLOSE = [[1.0, 1.0 + 3e-6, 0.5], [2.0, 2.0 + 8e-6, 2.0 + 1.6e-5, -1.0], [-3.0, -3.0 - 2.0 ** -30 * 3, 1.0, 4.0], [1.0, 1.0 + 2.0 ** -20, 1.0 + 2.0 ** -19, 1.0 + 3 * 2.0 ** -20, 7.0]]
    for ci, lam in enumerate(CLOSE):
        for kind in ("mono", "hh"):
            out.append({"key": f"spec/close/{ci}/{kind}", "grp": "spec", "n": len(lam), "lam": lam, "kind": kind, "scale": 0})
    # 2x2 (and embedded in 3x3) matrices with a tiny non-zero off-diagonal entry: |b| = 2^-e (gap 1 or 3), both orders of the diagonal
    for e in (30, 36, 40, 44, 48, 52, 60):
        for order in ("asc", "desc"):
            for n in (2, 3):
                out.append({"key": f"tinyoff/n={n}/e={e}/{order}", "grp": "tinyoff", "n": n, "e": e, "order": order})
    # exactly Hermitian matrices of size >= 8 / >= 32 with one eigenvalue that is exactly zero (dead first / last channel, diagonal with a zero)
    for n in (8, 9, 12, 32, 33):
        for where in ("last", "first", "diag"):
            out.append({"key": f"exactzero/n={n}/{where}", "grp": "exactzero", "n": n, "where": where})
    # graded tridiagonal part of a rank-one matrix s s^H with geometrically decaying |s_k| (hard for the symmetric tridiagonal eigensolvers)
    for n, ratio in ((16, 10.0), (24, 4.0), (30, 3.0), (12, 10.0)):
        for q in (False, True):
            out.append({"key": f"gradedr1/n={n}/ratio={ratio:g}/quat={int(q)}", "grp": "gradedr1", "n": n, "ratio": ratio, "quat": q})
    for n in (1, 2, 3):
        out.append({"key": f"reject/nonsquare/{n}x{n + 1}", "grp": "rej", "sub": "nonsquare", "n": n})
        out.append({"key": f"reject/nonherm/{n}", "grp": "rej", "sub": "nonherm", "n": n})
    # every way of being non-Hermitian by ONE defect: a non-real diagonal entry (each position x each imaginary component), or one
    # off-diagonal pair violating a_ji = conj(a_ij) in exactly one of the four components
    for n in (1, 2, 3, 4):
        for pos in range(n):
            for comp in (1, 2, 3):
                out.append({"key": f"reject/diag/n={n}/pos={pos}/c={comp}", "grp": "rej", "sub": "diag", "n": n, "pos": pos, "comp": comp})
        for (i, j) in itertools.combinations(range(n), 2):
            for comp in (0, 1, 2, 3):
                out.append({"key": f"reject/offdiag/n={n}/{i}{j}/c={comp}", "grp": "rej", "sub": "offdiag", "n": n, "i": i, "j": j, "comp": comp})
    # the same single defects (size 2^-7 .. 0.75) next to a consistent Hermitian entry that is 2^28 times larger: Hermitian-ness is an
    # entry-wise statement, a large entry elsewhere does not make an O(1) asymmetry negligible
    for n in (3, 4):
        for comp in (0, 1, 2, 3):
            for big in ("diag", "offpair"):
                for dsz in (0.75, 2.0 ** -7):
                    if comp:
                        out.append({"key": f"reject/diag/n={n}/pos={n - 1}/c={comp}/big={big}/d={dsz:g}", "grp": "rej", "sub": "diag", "n": n, "pos": n - 1, "comp": comp, "big": big, "dsz": dsz})
                    out.append({"key": f"reject/offdiag/n={n}/{n - 2}{n - 1}/c={comp}/big={big}/d={dsz:g}", "grp": "rej", "sub": "offdiag", "n": n, "i": n - 2, "j": n - 1, "comp": comp, "big": big, "dsz": dsz})
    return out


def make_input(case, seed):
    n = case["n"]
    grp = case["grp"]
    if grp == "spec":
        fill = G.Fill(seed, stream=hash_tag(case["key"]))
        V = G.unitary(case["kind"], n, fill, variant=n + len(case["key"]))
        A = G.herm_with_spectrum(V, case["lam"])
        if case["scale"]:
            A = np.ldexp(A, case["scale"])
        lam = sorted(np.ldexp(np.array(case["lam"]), case["scale"]).tolist())
        return A, lam
    if grp == "int":
        A = np.zeros((n, n, 4))
        for i in range(n):
            A[i, i, 0] = case["diag"][i]
        pairs = list(itertools.combinations(range(n), 2))
        for b, (i, j) in enumerate(pairs):
            if (case["mask"] >> b) & 1:
                q = np.array(case["letter"], float)
                if n == 4:
                    q = q * (1 + b % 3)
                A[i, j] = q
                A[j, i] = q * O.CONJ
        return A, None
    if grp == "xf":
        fill = G.Fill(seed, stream=hash_tag(case["key"]))
        A, lay = xf_build(case["xf"], n, n, fill, hermitian=True)
        case["_lay"] = lay
        return A, None
    if grp == "tinyoff":
        A = np.zeros((n, n, 4))
        d = [1.0, 2.0, 5.0][:n] if case["order"] == "asc" else [5.0, 2.0, 1.0][-n:]
        for i in range(n):
            A[i, i, 0] = d[i]
        b = np.ldexp(np.array([0.5, -1.0, 0.75, 0.25]), -case["e"])
        A[0, 1] = b
        A[1, 0] = b * O.CONJ
        return A, None
    if grp == "exactzero":
        fill = G.Fill(seed, stream=hash_tag(case["key"]))
        if case["where"] == "diag":
            A = np.zeros((n, n, 4))
            for i in range(n):
                A[i, i, 0] = float(n - 1 - i)
            return A, None
        B = fill.quat(n, n, bits=3, lo=-8, hi=8)
        A = O.qmatmul(B, O.qH(B)) / 16.0 + O.qeye(n)
        A = 0.5 * (A + O.qH(A))
        for i in range(n):
            A[i, i, 1:] = 0.0
        z = n - 1 if case["where"] == "last" else 0
        A[z, :] = 0.0
        A[:, z] = 0.0
        return A, None
    if grp == "gradedr1":
        sk = [case["ratio"] ** (-k) for k in range(n)]
        A = np.zeros((n, n, 4))
        for k in range(n):
            A[k, k, 0] = sk[k] * sk[k]
            if k + 1 < n:
                ph = G.SIGNED_UNITS[(2 * k + 3) % 8].astype(float) if case["quat"] else np.array([1.0, 0, 0, 0])
                A[k + 1, k] = ph * (sk[k] * sk[k + 1])
                A[k, k + 1] = A[k + 1, k] * O.CONJ
        return A, None
    if grp == "laplace":
        A = np.zeros((n, n, 4))
        for i in range(n):
            A[i, i, 0] = 2.0
            if i + 1 < n:
                A[i, i + 1, 0] = A[i + 1, i, 0] = -1.0
        return A, None
    raise ValueError


def check_tridiag(lib, A, tags, fails, lay="C"):
    n = A.shape[0]
    nA = max(O.fro(A), 1e-300)
    bud = O.budget(nA, dims=16 * n * n)
    Aq = relayout(G.to_quat(A), lay)
    before = Aq.tobytes()
    ok, res = call(lib.tridiag.tridiagonalize, Aq)
    if Aq.tobytes() != before:
        fails.append(fail("input_unchanged", "tridiagonalize modified its argument", fn="tridiagonalize", **tags))
    if not ok:
        fails.append(fail("raised", f"tridiagonalize: {type(res).__name__}: {res}", fn="tridiagonalize", **tags))
        return
    P, B = (G.from_quat(x) for x in res)
    if P.shape[:2] != (n, n) or B.shape[:2] != (n, n) or not (O.is_finite(P) and O.is_finite(B)):
        fails.append(fail("shapes_finite", f"P{P.shape} B{B.shape}", fn="tridiagonalize", **tags))
        return
    dP = O.unitarity_defect(P)
    if dP > O.budget(1.0, dims=16 * n * n):
        fails.append(fail("P_unitary", f"||P^H P - I||_F = {dP:.3e}", fn="tridiagonalize", **tags))
    if B[..., 1:].any():
        fails.append(fail("B_real", "B has non-zero imaginary parts", fn="tridiagonalize", **tags))
    off = max((abs(B[i, j, 0]) for i in range(n) for j in range(n) if abs(i - j) > 1), default=0.0)
    if off != 0.0:
        fails.append(fail("B_tridiagonal", f"off-band entry {off:.3e}", fn="tridiagonalize", **tags))
    asym = max((abs(B[i, i + 1, 0] - B[i + 1, i, 0]) for i in range(n - 1)), default=0.0)
    if asym > bud:
        fails.append(fail("B_symmetric", f"asymmetry {asym:.3e}", fn="tridiagonalize", **tags))
    err = O.fro(O.qmatmul(O.qmatmul(P, A), O.qH(P)) - B)
    if err > bud:
        fails.append(fail("PAP^H=B", f"||P A P^H - B||_F = {err:.3e} (||A||={nA:.3e})", fn="tridiagonalize", **tags))


def check_eig(lib, A, lam_exp, tags, fails, lay="C"):
    n = A.shape[0]
    nA = max(O.fro(A), 1e-300)
    bud = O.budget(nA, dims=16 * n * n)
    Aq = relayout(G.to_quat(A), lay)
    before = Aq.tobytes()
    ok, res = call(lib.eigen.quaternion_eigendecomposition, Aq)
    if Aq.tobytes() != before:
        fails.append(fail("input_unchanged", "eigendecomposition modified its argument", fn="eig", **tags))
    if not ok:
        fails.append(fail("raised", f"eigendecomposition: {type(res).__name__}: {res}", fn="eig", **tags))
        return
    w, V = res
    w = np.asarray(w)
    V = G.from_quat(V)
    if w.shape != (n,) or V.shape[:2] != (n, n) or not (np.all(np.isfinite(w)) and O.is_finite(V)):
        fails.append(fail("shapes_finite", f"w{w.shape} V{V.shape}", fn="eig", **tags))
        return
    if np.max(np.abs(np.imag(w)), initial=0.0) != 0.0:
        fails.append(fail("eigenvalues_real", f"imag parts {np.imag(w).tolist()}", fn="eig", **tags))
    ref = np.array(sorted(lam_exp)) if lam_exp is not None else O.eigvals_herm(A)
    got = np.sort(np.real(w))
    if np.max(np.abs(got - ref), initial=0.0) > bud:
        fails.append(fail("spectrum", f"eigenvalues {got.tolist()} expected {ref.tolist()}", fn="eig", **tags))
    dV = O.unitarity_defect(V)
    if dV > O.budget(1.0, dims=64 * n * n):
        fails.append(fail("V_unitary", f"||V^H V - I||_F = {dV:.3e}", fn="eig", **tags))
    D = G.diag_real(np.real(w), n, n)
    err = O.fro(O.qmatmul(A, V) - O.qmatmul(V, D))
    if err > bud:
        fails.append(fail("AV=VD", f"||A V - V diag(lambda)||_F = {err:.3e} (||A||={nA:.3e})", fn="eig", **tags))
    # verbose=True must not change the result
    okv, rv = quiet_call(lib.eigen.quaternion_eigendecomposition, Aq, verbose=True)
    if not okv or canon_value(rv) != canon_value(res):
        fails.append(fail("verbose_changes_result", f"eigendecomposition(verbose=True): {'raised ' + repr(rv) if not okv else 'different value'}", fn="eig", **tags))
    okv, rv = quiet_call(lib.eigen.quaternion_eigenvalues, Aq, verbose=True)
    if not okv or canon_value(rv) != canon_value(res[0]):
        fails.append(fail("verbose_changes_result", f"quaternion_eigenvalues(verbose=True): {'raised ' + repr(rv) if not okv else 'different value'}", fn="eig", **tags))
    # the wrappers agree
    ok1, w1 = call(lib.eigen.quaternion_eigenvalues, Aq)
    ok2, V1 = call(lib.eigen.quaternion_eigenvectors, Aq)
    if not ok1 or not ok2 or not np.array_equal(np.asarray(w1), w) or G.from_quat(V1).tobytes() != V.tobytes():
        fails.append(fail("wrappers_agree", "quaternion_eigenvalues/eigenvectors differ from the decomposition", fn="eig", **tags))


def run_case(case, seed):
    lib = load()
    fails = []
    grp = case["grp"]
    if grp == "rej":
        n = case["n"]
        fill = G.Fill(seed, stream=hash_tag(case["key"]))
        if case["sub"] == "nonsquare":
            A = fill.quat(n, n + 1)
        elif case["sub"] in ("diag", "offdiag"):
            A = fill.quat(n, n, bits=2, lo=-8, hi=8)
            A = 0.5 * (A + O.qH(A))
            for t in range(n):
                A[t, t, 1:] = 0.0
            if case.get("big") == "diag":
                A[0, 0, 0] = 2.0 ** 28
            elif case.get("big") == "offpair":
                A[0, 1] = np.ldexp(A[0, 1] + np.array([1.0, 0.5, 0, 0]), 28)
                A[1, 0] = A[0, 1] * np.array([1.0, -1.0, -1.0, -1.0])
            dsz = case.get("dsz", 0.75)
            if case["sub"] == "diag":
                A[case["pos"], case["pos"], case["comp"]] = dsz
            else:
                A[case["j"], case["i"], case["comp"]] += dsz  # only one triangle changed, only one component
        else:
            A = G.herm_with_spectrum(O.qeye(n), [1.0] * n)
            A[0, n - 1, 1] += 1.0  # O(1) non-Hermitian perturbation at O(1) scale
            if n > 1:
                A[n - 1, 0, 2] += 0.5
        Aq = G.to_quat(A)
        before = Aq.tobytes()
        for nm, f in (("eig", lib.eigen.quaternion_eigendecomposition), ("tridiagonalize", lib.tridiag.tridiagonalize)):
            if nm == "tridiagonalize" and case["sub"] in ("nonherm", "diag") and n < 2:
                continue  # tridiagonalize documents n >= 2 for its check; eigendecomposition must reject the 1x1 case
            ok, r = call(f, Aq)
            if ok:
                fails.append(fail("out_of_domain_accepted", f"{nm} returned for {case['sub']} input", fn=nm, sub=case["sub"]))
        if Aq.tobytes() != before:
            fails.append(fail("input_unchanged", "rejected call modified its argument", sub=case["sub"]))
        return {"key": case["key"], "fails": fails, "nontrivial": True, "digest": digest(A, "rej"), "path": "rejected" if not fails else "accepted"}
    A, lam = make_input(case, seed)
    n = A.shape[0]
    lam_or = lam if lam is not None else O.eigvals_herm(A).tolist()
    mult = max(sum(1 for y in lam_or if abs(y - x) <= 1e-9 * max(1.0, abs(x))) for x in lam_or)
    tags = {"grp": grp, "n": n, "max_mult": mult}
    lay = case.get("_lay", "C")
    if n >= 2:
        check_tridiag(lib, A, tags, fails, lay)
    check_eig(lib, A, lam, tags, fails, lay)
    return {
        "key": case["key"],
        "fails": fails,
        "nontrivial": bool(A.any()),
        "digest": digest(A),
        "path": f"n={n},mult={mult},zero_eig={int(any(abs(x) < 1e-12 for x in lam_or))}",
        "obs": [f["clause"] for f in fails],
        "sample": {"lam": lam_or},
    }
