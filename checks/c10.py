"""C10 — every Schur variant preserves A = Q T Q^H; the convergence flag is truthful.

Transition system: state after b outer iterations = result of the run with max_iter = b
(budget sweep).  Invariant checked in EVERY visited state (converged or not): Q unitary,
Q T Q^H = A to deflation accuracy; if diagnostics['converged']: T upper triangular to the
tolerance and, for Hermitian A, real diagonal carrying the eigenvalues.
"""
from __future__ import annotations

import itertools

import numpy as np

from checks.common import hash_tag, relayout, xf_build, xf_names, canon_value, quiet_call, si_names
from qmc import gen as G
from qmc import oracle as O
from qmc.loader import load
from qmc.run import call, digest, fail

ID = "C10"
LEVEL = "model_checking"
RULE = (
    "one case = (variant cell, input class, n, tol): budget sweep max_iter in B; states = (variant, input, budget) end states, transitions = consecutive budgets "
    "whose invariant held at both ends, traces = sweeps fully validated; non-trivial = A non-zero; distinct = sha1(input, variant, tol)"
)
BOUNDS = {
    "quick": "n<=3 (n=4 for 4 classes), 17 input classes, 19 variant cells (incl. experimental window=2 < n), budgets {0,1,2,3,5,10,50,300}, tol {1e-10,1e-6}; every variant on strided exhaustive small-integer inputs (3x3 real over {-1,0,1} and Hermitian over {0,1,-1,i,j,k}, every 81st)",
    "thorough": "n<=5, budgets up to 500, 2 fill rows; small-integer inputs every 9th",
}
WALL_BUDGET = {"quick": 900, "thorough": 3400}
ASSUMPTIONS = ["similarity budget: (2^10 u n^2 iterations + iterations*n*tol) max(1,||A||): each deflation may discard an entry of size <= tol*scale"]

VARIANTS = (
    [("quaternion_schur", {"shift": s}) for s in ("rayleigh", "wilkinson", "double")]
    + [("quaternion_schur_pure", {"shift_mode": s}) for s in ("none", "rayleigh")]
    + [("quaternion_schur_pure_implicit", {})]
    + [("quaternion_schur_unified", {"variant": v, "precompute_shifts": ps}) for v in ("none", "rayleigh", "implicit", "aed", "ds") for ps in ((True, False) if v in ("aed", "ds") else (True,))]
    + [("quaternion_schur_experimental", {"variant": v}) for v in ("aed_windowed", "francis_ds")]
    # window smaller than the matrix (the default window of 12 never bites for n <= 5)
    + [("quaternion_schur_experimental", {"variant": v, "window": 2}) for v in ("aed_windowed", "francis_ds")]
    # deflation window smaller than the matrix
    + [("quaternion_schur_unified", {"variant": v, "aed_window": w}) for v in ("aed", "ds") for w in (2, 3)]
)
CLASSES = ["generic", "hermitian", "hermitian_repeat", "triu", "normal", "rank1", "q8int", "zero_first_col", "zero_subdiag", "identity", "zero", "near_hermitian", "near_triu", "scaled_2^-30", "scaled_2^30",
           "sp:cyclic_shift", "sp:cyclic_shift_q", "sp:exchange", "sp:lower_shift", "sp:upper_shift", "sp:companion", "sp:ones", "sp:path_laplacian",
           "mask:k", "mask:1k", "mask:ij", "mask:jk"]


XF_CLASSES = [f"xf:{nm}" for nm in xf_names(3, 3) if not nm.startswith("sp:")] + [f"xfh:{nm}" for nm in xf_names(3, 3, hermitian=True) if not nm.startswith("sp:") and not nm.startswith("lay:")]
CLASSES = CLASSES + XF_CLASSES


def vname(fn, kw):
    return fn.replace("quaternion_schur", "qs") + "(" + ",".join(f"{k}={v}" for k, v in kw.items()) + ")"


def cases(tier, seed):
    N = 3 if tier == "quick" else 5
    out = []
    for vi, (fn, kw) in enumerate(VARIANTS):
        for n in range(1, (N + 2) if "aed_window" not in kw else 7):
            for cls in CLASSES:
                if n > N and cls not in ("generic", "hermitian", "zero_first_col", "normal") and not ("aed_window" in kw and cls in ("zero_subdiag", "triu", "near_triu")):
                    continue
                if n > N and tier == "quick" and fn == "quaternion_schur_pure" and kw.get("shift_mode") == "none":
                    continue
                for tol in (1e-10, 1e-6):
                    if tol == 1e-6 and cls not in ("generic", "hermitian"):
                        continue
                    out.append({"key": f"{vname(fn, kw)}/{cls}/n={n}/tol={tol:g}", "vi": vi, "cls": cls, "n": n, "tol": tol, "tier": tier})
        # reducible inputs with INTERIOR splits: block upper triangular (dense coupling blocks, exactly zero lower-left blocks), block sizes
        # chosen so that a reflector, a skipped column and another reflector follow each other
        for blocks in ((2, 3), (3, 3), (2, 2, 2), (3, 1, 2), (1, 2, 2), (2, 2, 1)):
            cls = "bt:" + "-".join(map(str, blocks))
            out.append({"key": f"{vname(fn, kw)}/{cls}/n={sum(blocks)}/tol=1e-10", "vi": vi, "cls": cls, "n": sum(blocks), "tol": 1e-10, "tier": tier})
    # exhaustive small-integer inputs (strided): every variant on real 3x3 matrices over {-1,0,1} and Hermitian 3x3 matrices over {0,1,-1,i,j,k}
    st = 81 if tier == "quick" else 9
    for vi, (fn, kw) in enumerate(VARIANTS):
        for nm in si_names("r3", 3, 3, False, st, 1):
            out.append({"key": f"{vname(fn, kw)}/xf:{nm}/n=3/tol=1e-10", "vi": vi, "cls": "xf:" + nm, "n": 3, "tol": 1e-10, "tier": tier, "_fixed": True})
        for nm in si_names("q6", 3, 3, True, st, 1):
            out.append({"key": f"{vname(fn, kw)}/xfh:{nm}/n=3/tol=1e-10", "vi": vi, "cls": "xfh:" + nm, "n": 3, "tol": 1e-10, "tier": tier, "_fixed": True})
    return out


def make(cls, n, fill):
    A = fill.quat(n, n, bits=3, lo=-16, hi=16)
    lam = None
    if cls == "hermitian":
        A = 0.5 * (A + O.qH(A))
        for i in range(n):
            A[i, i, 1:] = 0
    elif cls == "hermitian_repeat":
        lam = ([2.0, 2.0, -1.0, 0.5, 0.5])[:n]
        A = G.herm_with_spectrum(G.unitary("hh", n, fill, variant=n), lam)
    elif cls == "triu":
        for i in range(n):
            A[i, :i] = 0
    elif cls == "normal":
        D = np.zeros((n, n, 4))
        for i in range(n):
            D[i, i] = [1.0 + i, 0.5 * (i + 1) * (-1) ** i, 0, 0]
        U = G.unitary("hh", n, fill, variant=n + 1)
        A = O.qmatmul(O.qmatmul(U, D), O.qH(U))
    elif cls == "rank1":
        A = O.qmatmul(fill.quat(n, 1, bits=2, lo=-4, hi=4), fill.quat(1, n, bits=2, lo=-4, hi=4))
    elif cls == "q8int":
        idx = fill.ints((n, n), 0, 8)
        A = np.zeros((n, n, 4))
        for p_ in np.ndindex(n, n):
            A[p_] = G.Q8_LETTERS[idx[p_]]
    elif cls == "zero_first_col":
        A[1:, 0] = 0
    elif cls == "zero_subdiag":
        if n >= 2:
            k = n // 2
            A[k:, :k] = 0
    elif cls == "near_hermitian":
        A = 0.5 * (A + O.qH(A)) + np.ldexp(fill.quat(n, n, bits=3, lo=-16, hi=16), -22)
    elif cls == "near_triu":
        P_ = np.ldexp(fill.quat(n, n, bits=3, lo=-16, hi=16), -22)
        for i in range(n):
            A[i, :i] = P_[i, :i]
    elif cls.startswith("xf:") or cls.startswith("xfh:"):
        A, lay = xf_build(cls.split(":", 1)[1], n, n, fill, hermitian=cls.startswith("xfh:"))
        return A, None, lay
    elif cls.startswith("bt:"):
        off = 0
        for bsz in map(int, cls[3:].split("-")):
            A[off + bsz :, off : off + bsz] = 0.0
            off += bsz
    elif cls.startswith("sp:"):
        A = G.special(cls[3:], n, fill)
    elif cls.startswith("mask:"):
        mk = sum(1 << "1ijk".index(ch) for ch in cls[5:])
        B_ = fill.quat_int(n, n, -3, 3).astype(float)
        B_[B_ == 0] = 1.0
        A = G.apply_component_mask(B_, mk)
    elif cls.startswith("scaled_2^"):
        A = np.ldexp(A, int(cls.split("^")[1]))
    elif cls == "identity":
        A = O.qeye(n)
    elif cls == "zero":
        A = np.zeros((n, n, 4))
    return A, lam, "C"


def run_case(case, seed):
    lib = load()
    fn_name, kw = VARIANTS[case["vi"]]
    fn = getattr(lib.schur, fn_name)
    n, tol, cls = case["n"], case["tol"], case["cls"]
    fill = G.Fill(seed, stream=hash_tag(f"{cls}/{n}"))
    A, lam, lay = make(cls, n, fill)
    Aq = relayout(G.to_quat(A), lay)
    nA = max(1.0, O.fro(A))
    is_herm = cls in ("hermitian", "hermitian_repeat", "identity", "zero", "sp:exchange", "sp:ones", "sp:path_laplacian") or cls.startswith("xfh:")
    tags = {"fn": fn_name, "variant": vname(fn_name, kw), "cls": cls, "n": n, "tol": tol}
    fails = []
    states = []
    good = 0
    budgets = (0, 1, 2, 3, 5, 10, 50, 300) if case.get("tier", "quick") == "quick" else (0, 1, 2, 3, 4, 5, 7, 10, 20, 50, 100, 200, 500)
    conv_seen = False
    before = Aq.tobytes()
    for b in budgets:
        ok, res = call(fn, Aq, max_iter=b, tol=tol, return_diagnostics=True, **kw)
        if not ok:
            fails.append(fail("raised", f"budget {b}: {type(res).__name__}: {res}", budget=b, **tags))
            break
        Qq, Tq, diag = res
        Q, T = G.from_quat(Qq), G.from_quat(Tq)
        if Q.shape[:2] != (n, n) or T.shape[:2] != (n, n) or not (O.is_finite(Q) and O.is_finite(T)):
            fails.append(fail("shape_finite", f"budget {b}: Q{Q.shape} T{T.shape}", budget=b, **tags))
            break
        its = max(b, 1)
        dQ = O.unitarity_defect(Q)
        bad = False
        if dQ > O.budget(1.0, dims=64 * n * n * its):
            fails.append(fail("Q_unitary", f"budget {b}: ||Q^H Q - I||_F = {dQ:.3e}", budget=b, **tags))
            bad = True
        err = O.fro(O.qmatmul(O.qmatmul(Q, T), O.qH(Q)) - A)
        sim_bud = (O.budget(1.0, dims=64 * n * n * its) + min(its, 300) * n * tol * 4) * nA
        if err > sim_bud:
            fails.append(fail("A=QTQ^H", f"budget {b}: ||Q T Q^H - A||_F = {err:.3e} (allowed {sim_bud:.1e})", budget=b, **tags))
            bad = True
        conv = bool(diag.get("converged"))
        if conv:
            conv_seen = True
            low = max((O.qabs(T[i, j]) for i in range(n) for j in range(i)), default=0.0)
            if low > 10 * tol * nA:
                sub_max = max((O.qabs(T[i, i - 1]) for i in range(1, n)), default=0.0)
                fails.append(fail("converged=>upper_triangular", f"budget {b}: converged=True but max strictly-lower |T_ij| = {low:.3e} (tol {tol:g}; first sub-diagonal max {sub_max:.3e})", budget=b, lower_max=low,
                                  subdiag_ok=bool(sub_max <= 10 * tol * nA), **tags))
                bad = True
            elif is_herm:
                dg = np.array([T[i, i] for i in range(n)])
                offd = max((O.qabs(T[i, j]) for i in range(n) for j in range(n) if i != j), default=0.0)
                ref = np.array(sorted(lam)) if lam is not None else O.eigvals_herm(A)
                herm_tol = max(1e3 * tol, 1e-9) * nA * n
                if np.max(np.abs(dg[:, 1:]), initial=0.0) > herm_tol or offd > herm_tol * 10:
                    fails.append(fail("hermitian=>real_diagonal", f"budget {b}: max imag(diag)={np.max(np.abs(dg[:, 1:]), initial=0.0):.3e} max offdiag={offd:.3e}", budget=b, **tags))
                    bad = True
                elif np.max(np.abs(np.sort(dg[:, 0]) - ref), initial=0.0) > herm_tol:
                    fails.append(fail("hermitian=>eigenvalues", f"budget {b}: diag {np.sort(dg[:, 0]).tolist()} vs spectrum {ref.tolist()}", budget=b, **tags))
                    bad = True
        states.append(digest(case["key"], b, conv))
        if bad:
            break
        good += 1
        if conv and b >= 1:
            break
    if not fails:
        # verbose=True and return_diagnostics=False must return the same factors (budgets 0 and 3)
        for b in (0, 3):
            ok0, r0 = quiet_call(fn, Aq, max_iter=b, tol=tol, return_diagnostics=True, **kw)
            okv, rv = quiet_call(fn, Aq, max_iter=b, tol=tol, return_diagnostics=True, verbose=True, **kw)
            okp, rp = quiet_call(fn, Aq, max_iter=b, tol=tol, **kw)
            if not (ok0 and okv and okp):
                fails.append(fail("raised", f"budget {b}: verbose / plain call raised: {[r for o, r in ((ok0, r0), (okv, rv), (okp, rp)) if not o]}", budget=b, **tags))
            else:
                if canon_value(rv[:2]) != canon_value(r0[:2]):
                    fails.append(fail("verbose_changes_result", f"budget {b}: verbose=True returns different factors", budget=b, **tags))
                if not (isinstance(rp, tuple) and len(rp) == 2) or canon_value(rp) != canon_value(r0[:2]):
                    fails.append(fail("return_diagnostics_changes_result", f"budget {b}: return_diagnostics=False returns different factors", budget=b, **tags))
    if Aq.tobytes() != before:
        fails.append(fail("input_unchanged", "argument modified", **tags))
    return {
        "key": case["key"],
        "fails": fails,
        "nontrivial": bool(A.any()),
        "digest": digest(A, case["vi"], tol),
        "states": states,
        "transitions": max(good - 1, 0) + 1,
        "traces": 0 if fails else 1,
        "path": f"{vname(fn_name, kw)}:{'converged' if conv_seen else 'budget_exhausted'}",
        "obs": [good, conv_seen, [f["clause"] for f in fails]],
    }
