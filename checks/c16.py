"""C16 — Givens QR of Hessenberg matrices and triangular solves are exact building blocks."""
from __future__ import annotations

import itertools

import numpy as np

from checks.common import comps, hash_tag
from qmc import gen as G
from qmc import oracle as O
from qmc.loader import load
from qmc.run import call, digest, fail

ID = "C16"
LEVEL = "model_checking"
RULE = (
    "cases = (ggivens pair of letters) | (GRSGivens letter x call form) | (Hessenberg size k x sub-diagonal zero mask x zero column x "
    "sub-diagonal letter kind) | (triangular solver x n x nrhs x diagonal-modulus pattern); non-trivial = non-zero input; distinct = sha1(input, entry)"
)
BOUNDS = {
    "quick": "ggivens: all ordered pairs of 27 letters (zero, Q8, dyadic, 2^-60 Q8, generic); Hess: k<=4, all 2^k masks x zero-column positions x 2 letter kinds; solves: n<=4, nrhs<=4, 5 uniform scales + single-entry scales, 4 solvers",
    "thorough": "same with 3 fill rows and k<=6",
}
THOROUGH_STREAMS = 8
WALL_BUDGET = {"quick": 300, "thorough": 1800}
ASSUMPTIONS = [
    "ggivens thresholds its input norm at eps (absolute): for pairs of norm <= eps the identity is accepted if the mapped pair is within 4 eps of (norm, 0)",
    "kernels that overwrite their arguments by contract are called on copies",
]
EPS = np.finfo(float).eps


def letters(fill):
    L = [np.zeros(4)]
    L += [u.astype(float) for u in G.SIGNED_UNITS]
    L += [np.array(v, float) for v in ((0.5, 0.5, 0, 0), (0, 3, 4, 0), (1, -2, 2, 0.5), (0.25, 0, 0, -0.75), (2, 1, 0, 0), (0, 0, 1e-3, 0))]
    L += [u.astype(float) * 2.0 ** -60 for u in G.SIGNED_UNITS]
    L += [fill.dyadic((4,), bits=5, lo=-60, hi=60) for _ in range(4)]
    return L


def cases(tier, seed):
    out = []
    nlet = 27
    for a, b in itertools.product(range(nlet), repeat=2):
        out.append({"key": f"ggivens/{a}/{b}", "grp": "gg", "a": a, "b": b})
    for a in range(nlet):
        for form in ("vec", "args"):
            out.append({"key": f"grs/{a}/{form}", "grp": "grs", "a": a, "form": form})
    K = 4 if tier == "quick" else 6
    rows = 1 if tier == "quick" else 3
    for k in range(1, K + 1):
        for mask in range(1 << k):
            for zc in [None] + list(range(k)):
                for kind in ("posreal", "quat"):
                    for row in range(rows):
                        out.append({"key": f"hess/k={k}/z={mask:0{k}b}/zc={zc}/{kind}/row={row}", "grp": "hess", "k": k, "mask": mask, "zc": zc, "kind": kind, "row": row})
    for k in range(1, 4):
        for mask in G.COMPONENT_MASKS:
            for zmask in (0, 1, 2):
                out.append({"key": f"hessmask/k={k}/{G.mask_name(mask)}/z={zmask}", "grp": "hess", "k": k, "mask": zmask if k > 1 else 0, "zc": None, "kind": "quat", "row": 0, "cmask": mask})
    # graded sub-diagonals: non-zero entries far below the diagonal scale (2^-29, 2^-40, 2^-55 relative) must still be annihilated
    for k in range(1, K + 1):
        for e in (29, 40, 55):
            for which in list(range(k)) + ["all"]:
                for kind in ("posreal", "quat"):
                    out.append({"key": f"hess-graded/k={k}/e={e}/at={which}/{kind}", "grp": "hess", "k": k, "mask": 0, "zc": None, "kind": kind, "row": 0, "sube": e, "subat": which})
    for solver in ("Utriangle", "upper", "lower"):
        for n in (2, 3, 4):
            for pat in ("rev_identity", "first_col_zero", "leading_zero_rows", "trailing_zero_rows", "single_entry"):
                out.append({"key": f"solve/{solver}/n={n}/rhs={pat}", "grp": "solve", "solver": solver, "n": n, "nrhs": n, "sc": "1", "single": None, "rhs": pat})
    # joint zero patterns: every zero pattern of the strict triangle of T x every zero-row pattern of B (exact small-integer data, so
    # exactly-zero interior rows of the solution occur), n = 2, 3 complete, n = 4 every other pattern
    for solver in ("Utriangle", "upper", "lower"):
        for n in (2, 3, 4):
            npairs = n * (n - 1) // 2
            for tmask in range(1 << npairs):
                if n == 4 and tmask % 3:
                    continue
                for bmask in range(1, 1 << n):
                    out.append({"key": f"solve/{solver}/n={n}/joint/t={tmask:0{npairs}b}/b={bmask:0{n}b}", "grp": "solve", "solver": solver, "n": n, "nrhs": 2, "sc": "1", "single": None,
                                "joint": [tmask, bmask]})
    # special diagonals: moduli exactly one (signed units, Hurwitz units, -1), all ones, one/unit mixtures, equal moduli with different phases
    for solver in ("Utriangle", "upper", "lower"):
        for n in range(1, 5):
            for nrhs in (1, 3):
                for dk in ("units", "hurwitz", "ones", "minus_ones", "mixed_one_unit", "equalmod2", "unit_times_pow2"):
                    out.append({"key": f"solve/{solver}/n={n}/nrhs={nrhs}/diag={dk}", "grp": "solve", "solver": solver, "n": n, "nrhs": nrhs, "sc": "1", "single": None, "diag": dk})
    # off-diagonal part far larger than the diagonal (||T||_F >= 1e8 with diagonal moduli in 2^-20..1): the system is non-singular
    for solver in ("Utriangle", "upper", "lower"):
        for n in (2, 3, 6):
            for oe in (27, 34):
                for de in (0, -20):
                    out.append({"key": f"solve/{solver}/n={n}/offdiag=2^{oe}/diag=2^{de}", "grp": "solve", "solver": solver, "n": n, "nrhs": 2, "sc": "1", "single": None, "offe": oe, "dge": de})
    scales = ["2^-20", "1e-6", "1", "1e6", "2^20"]
    for solver in ("Utriangle", "upper", "lower", "Utriangle_via_tq"):
        if solver == "Utriangle_via_tq":
            continue
        for n in range(1, 5):
            for nrhs in range(1, 5):
                for sc in scales:
                    out.append({"key": f"solve/{solver}/n={n}/nrhs={nrhs}/uniform={sc}", "grp": "solve", "solver": solver, "n": n, "nrhs": nrhs, "sc": sc, "single": None})
                for sc in ("1e-6", "1e6"):
                    for pos in range(n):
                        out.append({"key": f"solve/{solver}/n={n}/nrhs={nrhs}/single={sc}@{pos}", "grp": "solve", "solver": solver, "n": n, "nrhs": nrhs, "sc": sc, "single": pos})
    for a in range(nlet):
        for sc in scales:
            out.append({"key": f"inv/{a}/{sc}", "grp": "inv", "a": a, "sc": sc})
    return out


SC = {"2^-20": 2.0 ** -20, "1e-6": 1e-6, "1": 1.0, "1e6": 1e6, "2^20": 2.0 ** 20}


def gq_from_blocked(Gm, m, n):
    """first block column of a component-blocked real matrix -> quaternion matrix (m,n,4)."""
    return np.stack([Gm[c * m : (c + 1) * m, 0:n] for c in range(4)], axis=-1)


def run_case(case, seed):
    lib = load()
    u = lib.utils
    fails = []
    grp = case["grp"]
    fill0 = G.Fill(seed, stream=7)
    L = letters(fill0)
    if grp == "gg":
        x1, x2 = L[case["a"]].copy(), L[case["b"]].copy()
        tags = {"grp": "gg"}
        t = float(np.sqrt((x1 ** 2).sum() + (x2 ** 2).sum()))
        ok, Gm = call(u.ggivens, x1.copy(), x2.copy())
        if not ok:
            fails.append(fail("raised", f"ggivens: {Gm}", **tags))
        else:
            Gm = np.asarray(Gm, float)
            if Gm.shape != (8, 8) or not np.all(np.isfinite(Gm)):
                fails.append(fail("shape_finite", f"{Gm.shape}", **tags))
            else:
                d = np.linalg.norm(Gm.T @ Gm - np.eye(8))
                if d > 64 * 8 * O.U:
                    fails.append(fail("G_orthogonal", f"||G^T G - I|| = {d:.3e}", **tags))
                Gq = gq_from_blocked(Gm, 2, 2)
                if not np.array_equal(O.real_blocked(Gq), Gm):
                    fails.append(fail("G_quaternion_structure", "G is not the block representation of a 2x2 quaternion matrix", **tags))
                v = np.array([x1[0], x2[0], x1[1], x2[1], x1[2], x2[2], x1[3], x2[3]])
                w = Gm.T @ v
                target = np.zeros(8)
                target[0] = t
                err = np.linalg.norm(w - target)
                if err > max(64 * 8 * O.U * t, 4 * EPS if t <= EPS else 0.0):
                    fails.append(fail("G^T[x1;x2]=(norm,0)", f"residual {err:.3e}, norm {t:.3e}, x1={x1.tolist()} x2={x2.tolist()}", **tags))
        br = "zero" if t == 0 else ("tiny" if t <= EPS else ("q1<q2" if np.linalg.norm(x1) < np.linalg.norm(x2) else "q1>=q2"))
        return {"key": case["key"], "fails": fails, "nontrivial": t > 0, "digest": digest(x1, x2), "path": "ggivens:" + br, "obs": [f["clause"] for f in fails]}
    if grp == "grs":
        g = L[case["a"]].copy()
        tags = {"grp": "grs", "form": case["form"]}
        ok, Gm = call(u.GRSGivens, g.copy()) if case["form"] == "vec" else call(u.GRSGivens, float(g[0]), float(g[1]), float(g[2]), float(g[3]))
        if not ok:
            fails.append(fail("raised", f"GRSGivens: {Gm}", **tags))
        else:
            Gm = np.asarray(Gm, float)
            ident = np.array_equal(Gm, np.eye(4))
            d = np.linalg.norm(Gm.T @ Gm - np.eye(4)) if Gm.shape == (4, 4) else np.inf
            if d > 64 * 4 * O.U:
                fails.append(fail("G_orthogonal", f"||G^T G - I|| = {d:.3e}", **tags))
            elif not np.array_equal(O.left4(Gm[:, 0]), Gm):
                fails.append(fail("G_quaternion_structure", "not of the form L(unit quaternion)", **tags))
            elif not ident:
                w = Gm.T @ g
                if np.linalg.norm(w[1:]) > 64 * O.U * np.linalg.norm(g) or abs(w[0] - np.linalg.norm(g)) > 64 * O.U * np.linalg.norm(g):
                    fails.append(fail("G^T g=(norm,0,0,0)", f"{w.tolist()}", **tags))
        return {"key": case["key"], "fails": fails, "nontrivial": bool(g.any()), "digest": digest(g, case["form"]), "path": "grs", "obs": [f["clause"] for f in fails]}
    if grp == "hess":
        k = case["k"]
        m = k + 1
        fill = G.Fill(seed + 17 * case["row"], stream=hash_tag(case["key"]))
        H = fill.quat(m, k, bits=4, lo=-40, hi=40)
        for i in range(m):
            H[i, : max(i - 1, 0)] = 0.0
        for j in range(k):
            if case["kind"] == "posreal":
                H[j + 1, j] = [abs(H[j + 1, j, 0]) + 0.5, 0, 0, 0]
            if (case["mask"] >> j) & 1:
                H[j + 1, j] = 0.0
        if case["zc"] is not None:
            H[:, case["zc"]] = 0.0
        if case.get("sube"):
            for j in range(k):
                if case["subat"] == "all" or case["subat"] == j:
                    if not H[j + 1, j].any():
                        H[j + 1, j, 2] = 1.0
                    H[j + 1, j] = np.ldexp(H[j + 1, j], -case["sube"])
                if not H[j, j].any():
                    H[j, j, 1] = 1.0
        if case.get("cmask"):
            Hm = fill.quat_int(m, k, -3, 3).astype(float)
            Hm[Hm == 0] = 2.0
            for i in range(m):
                Hm[i, : max(i - 1, 0)] = 0.0
            H = G.apply_component_mask(Hm, case["cmask"])
            for j in range(k):
                if (case["mask"] >> j) & 1 and j > 0:
                    H[j + 1, j] = 0.0
        tags = {"grp": "hess", "k": k, "kind": case["kind"]}
        Hs = np.vstack(comps(H))
        ok, res = call(u.Hess_QR_ggivens, Hs.copy())
        nH = max(O.fro(H), 1e-300)
        if not ok:
            fails.append(fail("raised", f"Hess_QR_ggivens: {type(res).__name__}: {res}", **tags))
        else:
            Wf, Rf = res
            ok2, parts = call(lambda: (u.A2A0123(np.asarray(Wf)), u.A2A0123(np.asarray(Rf))))
            if not ok2 or np.asarray(Wf).shape != (m, 4 * m) or np.asarray(Rf).shape != (m, 4 * k):
                fails.append(fail("shapes", f"W{np.asarray(Wf).shape} R{np.asarray(Rf).shape}", **tags))
            else:
                W = np.stack(parts[0], axis=-1)
                R = np.stack(parts[1], axis=-1)
                dW = O.unitarity_defect(W)
                if dW > O.budget(1.0, dims=16 * m * m):
                    fails.append(fail("W_unitary", f"||W^H W - I||_F = {dW:.3e}", **tags))
                low = max((O.qabs(R[i, j]) for i in range(m) for j in range(k) if i > j), default=0.0)
                if low > O.budget(nH, dims=16 * m):
                    fails.append(fail("R_upper", f"max |R_ij| below diagonal {low:.3e}", **tags))
                err = O.fro(O.qmatmul(W, R) - H)
                if err > O.budget(nH, dims=16 * m * m):
                    fails.append(fail("WR=H", f"||W R - H||_F = {err:.3e}", **tags))
        return {"key": case["key"], "fails": fails, "nontrivial": bool(H.any()), "digest": digest(H), "path": f"hess:zeros={bin(case['mask']).count('1')},zc={case['zc'] is not None},{case['kind']}", "obs": [f["clause"] for f in fails]}
    if grp == "inv":
        q = L[case["a"]] * SC[case["sc"]]
        tags = {"grp": "inv", "sc": case["sc"]}
        mod = float(np.sqrt((q ** 2).sum()))
        if mod == 0 or mod < 1e-7 or mod > 1e7:
            return {"key": case["key"], "fails": [], "nontrivial": False, "skipped": "outside 1e-6..1e6 modulus range" if mod else "zero", "digest": digest(q)}
        ok, inv = call(u.dotinvQsparse, *map(float, q))
        if not ok:
            fails.append(fail("raised", f"dotinvQsparse: {inv}", **tags))
        else:
            inv = np.array(inv, float)
            one = O.qmul(q, inv)
            err = np.linalg.norm(one - np.array([1.0, 0, 0, 0]))
            if err > 64 * O.U:
                fails.append(fail("q*inv(q)=1", f"|q*inv(q) - 1| = {err:.3e} for |q| = {mod:.3e}", fn="dotinvQsparse", modulus=mod, **tags))
        ok, ab = call(u.absQsparse, *map(float, q))
        if not ok or abs(ab[0] - mod) > 8 * O.U * mod or np.linalg.norm(np.array(ab[1:]) * mod - q) > 64 * O.U * mod + EPS:
            fails.append(fail("absQsparse", f"{ab} for q={q.tolist()}", fn="absQsparse", modulus=mod, **tags))
        return {"key": case["key"], "fails": fails, "nontrivial": True, "digest": digest(q), "path": "inv", "obs": [f["clause"] for f in fails]}
    # triangular solves
    n, nrhs, solver = case["n"], case["nrhs"], case["solver"]
    fill = G.Fill(seed, stream=hash_tag(case["key"]))
    T = fill.quat(n, n, bits=3, lo=-16, hi=16)
    for i in range(n):
        if solver == "lower":
            T[i, i + 1 :] = 0.0
        else:
            T[i, :i] = 0.0
        T[i, i] = G.SIGNED_UNITS[(i * 3 + n) % 8].astype(float) * 2.0 + np.array([0, 0.5, 0, 0.25])  # modulus ~2: well conditioned
    if case.get("joint"):
        tmask, bmask = case["joint"]
        T = fill.quat_int(n, n, -2, 2).astype(float)
        pairs = [(i, j) for i in range(n) for j in range(i + 1, n)]
        for i in range(n):
            for j in range(n):
                if (solver == "lower" and j > i) or (solver != "lower" and j < i):
                    T[i, j] = 0.0
            T[i, i] = G.SIGNED_UNITS[(3 * i + 1) % 8].astype(float) * (2.0 if i % 2 else 1.0) + (np.array([1.0, 1.0, 1.0, 1.0]) if i == 1 else 0.0)
        for b_, (i, j) in enumerate(pairs):
            if not (tmask >> b_) & 1:
                if solver == "lower":
                    T[j, i] = 0.0
                else:
                    T[i, j] = 0.0
            elif not (T[j, i] if solver == "lower" else T[i, j]).any():
                (T[j, i] if solver == "lower" else T[i, j])[2] = 1.0
    if case.get("offe"):
        for i in range(n):
            for j in range(n):
                if i != j:
                    T[i, j] = np.ldexp(T[i, j], case["offe"])
            T[i, i] = np.ldexp(T[i, i], case["dge"])
    dk = case.get("diag")
    if dk:
        hur = [np.array(v, float) / 2 for v in itertools.product((1, -1), repeat=4)]
        for i in range(n):
            T[i, i] = {
                "units": G.SIGNED_UNITS[(2 * i + 3) % 8].astype(float),
                "hurwitz": hur[(5 * i + n) % 16],
                "ones": np.array([1.0, 0, 0, 0]),
                "minus_ones": np.array([-1.0, 0, 0, 0]),
                "mixed_one_unit": np.array([1.0, 0, 0, 0]) if i % 2 == 0 else G.SIGNED_UNITS[(2 * i + 1) % 8].astype(float),
                "equalmod2": G.SIGNED_UNITS[(3 * i + 2) % 8].astype(float) * 2.0,
                "unit_times_pow2": hur[(3 * i + 1) % 16] * 2.0 ** (i - 1),
            }[dk]
    B = fill.quat(n, nrhs, bits=3, lo=-16, hi=16)
    pat = case.get("rhs")
    if pat == "rev_identity":
        B = np.zeros((n, nrhs, 4))
        for i in range(n):
            B[i, n - 1 - i, 0] = 1.0
    elif pat == "first_col_zero":
        B[:, 0] = 0.0
    elif pat == "leading_zero_rows":
        B[: n - 1, 0] = 0.0
        B[0, :] = 0.0
        B[0, nrhs - 1, 2] = 1.0
    elif pat == "trailing_zero_rows":
        B[1:, 0] = 0.0
        B[n - 1, :] = 0.0
        B[n - 1, nrhs - 1, 1] = 1.0
    elif pat == "single_entry":
        B = np.zeros((n, nrhs, 4))
        B[n // 2, nrhs - 1, 3] = 1.0
    if case.get("joint"):
        # B = T X0 with X0 having exactly-zero rows where bmask has a 0 bit (exact integer arithmetic): the solution has those zero rows
        X0 = fill.quat_int(n, nrhs, -2, 2).astype(float)
        for i in range(n):
            if not (case["joint"][1] >> i) & 1:
                X0[i] = 0.0
            elif not X0[i].any():
                X0[i, 0, 1] = 1.0
        B = O.qmatmul(T, X0)
    s = SC[case["sc"]]
    if case["single"] is None:
        T = T * s
    else:
        T[case["single"], case["single"]] *= s
    tags = {"grp": "solve", "solver": solver, "nrhs": nrhs, "sc": case["sc"], "single": case["single"] is not None}
    if solver == "Utriangle":
        Tc = comps(T)
        Bc = [c.copy() for c in comps(B)]
        ok, res = call(u.UtriangleQsparse, *Tc, *Bc)
        X = np.stack([np.asarray(r, float) for r in res], axis=-1) if ok else None
    elif solver == "upper":
        ok, res = call(lib.solver._solve_upper_triangular_quat, G.to_quat(T), G.to_quat(B))
        X = G.from_quat(res) if ok else None
    else:
        ok, res = call(lib.solver._solve_lower_triangular_quat, G.to_quat(T), G.to_quat(B))
        X = G.from_quat(res) if ok else None
    if not ok:
        fails.append(fail("raised", f"{solver}: {type(res).__name__}: {res}", **tags))
    elif X.shape != B.shape or not O.is_finite(X):
        fails.append(fail("shape_finite", f"X{X.shape} B{B.shape}", **tags))
    else:
        resid = O.fro(O.qmatmul(T, X) - B)
        scale = O.fro(T) * O.fro(X) + O.fro(B)
        if resid > O.budget(scale, dims=16 * n):
            fails.append(fail("TX=B", f"backward error {resid / scale:.3e} (||TX-B||={resid:.3e})", **tags))
    return {"key": case["key"], "fails": fails, "nontrivial": True, "digest": digest(T, B, solver), "path": f"solve:{solver},nrhs>1={nrhs > 1}", "obs": [f["clause"] for f in fails]}
