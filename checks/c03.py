"""C03 — Newton–Schulz solvers follow the documented recurrence, monotone, -> Moore–Penrose.

Model M.ns: with A = U diag(s) V^H the iterate is X_k = V diag(t_k / s) U^H on the non-zero
singular directions (zero directions stay untouched), t_0 = s^2 / sum s^2 and
   damped:      t <- t (1 + gamma (1 - t))
   third order: t <- 1 - (1 - t)^3.
The trajectory is observed without instrumentation: budget k returns X_k (tol = 0).
"""
from __future__ import annotations

import itertools
import math

import numpy as np

from checks.common import canon_value, hash_tag, quiet_call, to_sparse
from qmc import gen as G
from qmc import oracle as O
from qmc.loader import load
from qmc.run import call, digest, fail

ID = "C03"
LEVEL = "model_checking"
RULE = (
    "one case = one trajectory: (shape, rank, cluster composition, value assignment, factor kind, solver, gamma, residual tracking, storage); "
    "states = iterates X_k (k=0..K) visited, transitions = steps X_k -> X_{k+1} compared with the scalar model; non-trivial = rank >= 1; "
    "distinct = sha1(input, solver config)"
)
BOUNDS = {
    "quick": "m,n<=3 (+ whole-matrix scalings 2^-27, 2^27), ranks 0..min, all compositions x 2 value assignments from {1,1/2,1/4,2^-5,2^-10}, factors monomial/Householder, gamma in {1/2,1}, K=12, stop cells tol in {1e-3,1e-6,1e-9} budget 300; mid-conditioned (cond 2^20) tall/wide/square trajectories K=50 damped / 35 third-order, per-key history budgets",
    "thorough": "m,n<=4, gamma in {1/4,1/2,3/4,1}, K=30, dynamic range 2^20",
}
THOROUGH_STREAMS = 3
WALL_BUDGET = {"quick": 420, "thorough": 3000}
ASSUMPTIONS = [
    "horizon K: 'X tends to the pseudoinverse' is checked as agreement with the closed-form trajectory up to K and as the explicit error bound at a tolerance stop",
    "comparison budget 2^10 u k cond(A) ||X_k||",
]
MENU = [1.0, 0.5, 0.25, 2.0 ** -5, 2.0 ** -10]
MENU_T = [1.0, 0.5, 2.0 ** -3, 2.0 ** -10, 2.0 ** -20]


def assign(comp, how, menu):
    c = len(comp)
    if c == 0:
        return []
    if how == "head":
        vals = menu[:c]
    else:
        idx = [round(i * (len(menu) - 1) / max(c - 1, 1)) for i in range(c)] if c > 1 else [len(menu) - 1]
        vals = [menu[i] for i in idx]
    out = []
    for k, v in zip(comp, vals):
        out += [v] * k
    return out


def cases(tier, seed):
    S = 3 if tier == "quick" else 4
    gammas = [0.5, 1.0] if tier == "quick" else [0.25, 0.5, 0.75, 1.0]
    menu = MENU if tier == "quick" else MENU_T
    out = []
    for m, n in itertools.product(range(1, S + 1), repeat=2):
        p = min(m, n)
        for r in range(p + 1):
            for comp in G.compositions(r):
                for how in ("head", "spread"):
                    if how == "spread" and (len(comp) == 0 or assign(comp, "head", menu) == assign(comp, "spread", menu)):
                        continue
                    for kind in ("mono", "hh"):
                        base = f"{m}x{n}/r={r}/c={'-'.join(map(str, comp)) or '0'}/{how}/{kind}"
                        for g in gammas:
                            for cr in (True, False):
                                out.append({"key": f"damped/{base}/g={g}/res={int(cr)}", "solver": "damped", "m": m, "n": n, "comp": list(comp), "how": how, "kind": kind, "gamma": g, "cr": cr, "sparse": False, "mode": "traj"})
                        out.append({"key": f"damped/{base}/g=0.5/sparse", "solver": "damped", "m": m, "n": n, "comp": list(comp), "how": how, "kind": kind, "gamma": 0.5, "cr": True, "sparse": True, "mode": "traj"})
                        if how == "head" and kind == "hh" and r >= 1:
                            out.append({"key": f"damped/{base}/g=0.5/sparse-noncanonical", "solver": "damped", "m": m, "n": n, "comp": list(comp), "how": how, "kind": kind, "gamma": 0.5, "cr": True, "sparse": "noncanonical", "mode": "traj"})
                        out.append({"key": f"third/{base}", "solver": "third", "m": m, "n": n, "comp": list(comp), "how": how, "kind": kind, "gamma": None, "cr": True, "sparse": False, "mode": "traj"})
                        if how == "head" and kind == "hh" and r >= 1:
                            for e in (-27, 27):
                                out.append({"key": f"damped/{base}/g=1.0/scale=2^{e}", "solver": "damped", "m": m, "n": n, "comp": list(comp), "how": how, "kind": kind, "gamma": 1.0, "cr": True, "sparse": False, "mode": "traj", "scale": e})
                                out.append({"key": f"damped/{base}/g=0.5/nores/scale=2^{e}", "solver": "damped", "m": m, "n": n, "comp": list(comp), "how": how, "kind": kind, "gamma": 0.5, "cr": False, "sparse": False, "mode": "traj", "scale": e})
                                out.append({"key": f"third/{base}/scale=2^{e}", "solver": "third", "m": m, "n": n, "comp": list(comp), "how": how, "kind": kind, "gamma": None, "cr": True, "sparse": False, "mode": "traj", "scale": e})
                        if how == "head" and 1 <= r < p and kind == "hh":
                            # small damping, tight tolerance, long budget on rank-deficient inputs: the run may only stop
                            # when ALL Penrose residuals are below tol
                            for g_, tol in ((0.1, 1e-10), (0.25, 1e-9), (0.25, 1e-10)):
                                out.append({"key": f"stop/damped/{base}/g={g_}/tol={tol}", "solver": "damped", "m": m, "n": n, "comp": list(comp), "how": how, "kind": kind, "gamma": g_, "cr": True, "sparse": False, "mode": "stop", "tol": tol, "budget": 400})
                        if how == "head" and r >= 1:
                            for tol in (1e-3, 1e-6, 1e-9):
                                out.append({"key": f"stop/damped/{base}/tol={tol}", "solver": "damped", "m": m, "n": n, "comp": list(comp), "how": how, "kind": kind, "gamma": 1.0, "cr": True, "sparse": False, "mode": "stop", "tol": tol})
                                out.append({"key": f"stop/damped-cov/{base}/tol={tol}", "solver": "damped", "m": m, "n": n, "comp": list(comp), "how": how, "kind": kind, "gamma": 1.0, "cr": False, "sparse": False, "mode": "stop", "tol": tol})
                                out.append({"key": f"stop/third/{base}/tol={tol}", "solver": "third", "m": m, "n": n, "comp": list(comp), "how": how, "kind": kind, "gamma": None, "cr": True, "sparse": False, "mode": "stop", "tol": tol})
    # damping values next to the special value 1 (1 - 2^-20, 1 - 1e-6, 0.99999, 0.9999) and tiny ones: the recurrence must use the given gamma
    for m, n in ((2, 2), (3, 2), (2, 3), (3, 3)):
        p = min(m, n)
        for gi, g in enumerate((1.0 - 2.0 ** -20, 1.0 - 1e-6, 0.99999, 0.9999, 2.0 ** -10, 0.5 + 2.0 ** -30)):
            for cr in (True, False):
                out.append({"key": f"gamma/{m}x{n}/g{gi}/res={int(cr)}", "solver": "damped", "m": m, "n": n, "comp": [1] * p, "how": "head", "kind": "hh", "gamma": g, "cr": cr, "sparse": False, "mode": "traj"})
    # long trajectories on full-rank inputs with a wide singular-value range (sigma_min / sigma_max = 2^-27): the small direction
    # only starts to move after ~50 damped / ~30 third-order steps, long after the large ones have converged and the
    # residuals sit on their rounding floor
    for m, n in ((2, 2), (3, 3), (4, 3), (3, 4)) + (() if tier == "quick" else ((5, 5), (6, 4), (4, 6))):
        p = min(m, n)
        vals = [1.0, 0.625, 0.3125, 0.75, 0.5, 0.875][: p - 1] + [2.0 ** -27]
        for solver, g, K_ in (("damped", 1.0, 70), ("damped", 0.5, 110), ("third", None, 45)):
            for cr in ((True, False) if solver == "damped" else (True,)):
                out.append({"key": f"long/{solver}/{m}x{n}/g={g}/res={int(cr)}", "solver": solver, "m": m, "n": n, "comp": [1] * p, "how": "head", "kind": "hh", "gamma": g, "cr": cr,
                            "sparse": False, "mode": "traj", "vals": vals, "K": K_})
    # ill-conditioned (cond 2^20) tall / wide / square inputs at budgets where the Hermitian defects ||AX - (AX)^H||, ||XA - (XA)^H|| are far
    # above rounding level and differ from each other: every history key must report its OWN residual of the returned iterate
    for m, n in ((9, 5), (6, 3), (5, 9), (3, 6), (5, 5)):
        p = min(m, n)
        vals = [1.0, 0.625, 0.3125, 0.75, 0.5][: p - 1] + [2.0 ** -20]
        for solver, g, K_ in (("damped", 1.0, 50), ("third", None, 35)):
            out.append({"key": f"mid/{solver}/{m}x{n}/g={g}", "solver": solver, "m": m, "n": n, "comp": [1] * p, "how": "head", "kind": "hh", "gamma": g, "cr": True,
                        "sparse": False, "mode": "traj", "vals": vals, "K": K_})
    for c in out:
        c["tier"] = tier
    return out


def step(t, solver, gamma):
    if solver == "damped":
        return t * (1.0 + gamma * (1.0 - t))
    return t * (3.0 - 3.0 * t + t * t)  # = 1 - (1 - t)^3 without cancellation for tiny t


def penrose(A, X):
    AX = O.qmatmul(A, X)
    XA = O.qmatmul(X, A)
    return {
        "AXA-A": O.fro(O.qmatmul(AX, A) - A),
        "XAX-X": O.fro(O.qmatmul(XA, X) - X),
        "AX-herm": O.fro(AX - O.qH(AX)),
        "XA-herm": O.fro(XA - O.qH(XA)),
    }


def run_case(case, seed):
    lib = load()
    m, n = case["m"], case["n"]
    K = 12 if case.get("tier", "quick") == "quick" else 30
    fill = G.Fill(seed, stream=hash_tag(f"{m}x{n}/{case['kind']}"))
    s = assign(case["comp"], case["how"], MENU if case.get("tier", "quick") == "quick" else MENU_T)
    if case.get("vals"):
        s, K = list(case["vals"]), case["K"]
    if case.get("scale"):
        s = [float(np.ldexp(v, case["scale"])) for v in s]
    r = len(s)
    Uq = G.unitary(case["kind"], m, fill, variant=m + 2 * r)
    Vq = G.unitary(case["kind"], n, fill, variant=n + 3 * r + 1)
    A = G.with_spectrum(Uq, s, Vq)
    nA = O.fro(A)
    tags = {"solver": case["solver"], "rank": r, "m": m, "n": n, "mode": case["mode"], "zero_matrix": r == 0}
    fails = []
    if case["sparse"] == "noncanonical":
        from scipy import sparse as _sp

        def _nc(P):  # every entry stored as two summands at the same position (legal CSR, not canonical)
            rr, cc = np.nonzero(np.ones_like(P))
            d1 = P[rr, cc] * 0.25
            d2 = P[rr, cc] - d1
            rows = np.concatenate([rr, rr])
            cols = np.concatenate([cc, cc])
            order = np.lexsort((cols, rows))
            indptr = np.concatenate([[0], np.cumsum(np.bincount(rows, minlength=P.shape[0]))])
            return _sp.csr_matrix((np.concatenate([d1, d2])[order], cols[order], indptr), shape=P.shape)

        Ain = lib.utils.SparseQuaternionMatrix(*[_nc(np.ascontiguousarray(A[..., t])) for t in range(4)], (m, n))
    else:
        Ain = to_sparse(lib, A) if case["sparse"] else G.to_quat(A)
    before = None if case["sparse"] else Ain.tobytes()
    sv = lib.solver

    def make(max_iter, tol, verbose=False):
        if case["solver"] == "damped":
            return sv.NewtonSchulzPseudoinverse(gamma=case["gamma"], max_iter=max_iter, tol=tol, compute_residuals=case["cr"], verbose=verbose)
        return sv.HigherOrderNewtonSchulzPseudoinverse(max_iter=max_iter, tol=tol, verbose=verbose)

    s_arr = np.array(s)
    cond = (s_arr.max() / s_arr.min()) if r else 1.0
    Ur, Vr = Uq[:, :r], Vq[:, :r]

    def model_X(t):
        D = np.zeros((r, r, 4))
        for i in range(r):
            D[i, i, 0] = t[i] / s_arr[i]
        return O.qmatmul(O.qmatmul(Vr, D), O.qH(Ur)) if r else np.zeros((n, m, 4))

    if case["mode"] == "stop":
        tol = case["tol"]
        BUD = case.get("budget", 300)
        ok, res = call(make(BUD, tol).compute, Ain)
        if not ok:
            fails.append(fail("raised", f"{res}", **tags))
            return {"key": case["key"], "fails": fails, "nontrivial": True, "digest": digest(A, case["key"])}
        X = G.from_quat(res[0])
        hist = res[1]["AXA-A"] if (case["cr"] or case["solver"] == "third") else res[2]
        its = len(hist)
        stopped = its < BUD
        if stopped:
            Aplus = model_X(np.ones(r))
            err = O.fro(X - Aplus)
            bound = tol / (s_arr.min() ** 2)
            if err > bound * (1 + 1e-6) + O.budget(O.fro(Aplus), dims=64 * cond):
                fails.append(fail("stop_accuracy", f"stopped after {its} iterations with ||X - A^+||_F = {err:.3e} > tol/s_min^2 = {bound:.3e}", tol=tol, **tags))
        return {"key": case["key"], "fails": fails, "nontrivial": True, "digest": digest(A, case["key"]), "states": [f"{case['key']}#{its}"], "transitions": its,
                "traces": 0 if fails else 1, "path": "stopped" if stopped else "budget_exhausted", "obs": [its, stopped]}

    # ---- trajectory
    t = (s_arr ** 2) / float(np.sum(s_arr ** 2)) if r else np.zeros(0)
    prev_res = None
    prev_cov = None
    Xs = {0: model_X(t)}
    e_prev = math.sqrt(float(np.sum((s_arr * (t - 1.0)) ** 2))) if r else 0.0
    floor = O.budget(nA, dims=64 * cond * max(m, n))
    states = [digest(Xs[0])]
    steps_ok = 0
    for k in range(1, K + 1):
        t = step(t, case["solver"], case["gamma"])
        if case.get("vals") and k % 5 and k != K:
            continue  # long trajectories: every 5th budget (each budget is a full run)
        ok, res = call(make(k, 0.0).compute, Ain)
        if not ok:
            fails.append(fail("raised", f"budget {k}: {type(res).__name__}: {res}", k=k, **tags))
            break
        Xq, resid, third = res
        X = G.from_quat(Xq)
        if X.shape[:2] != (n, m) or not O.is_finite(X):
            fails.append(fail("finite_shape", f"budget {k}: X{X.shape} finite={O.is_finite(X)}", k=k, **tags))
            break
        Xs[k] = X
        states.append(digest(X))
        Xm = model_X(t)
        # For rank-deficient A the documented recurrence itself amplifies rounding errors that lie in
        # null(A) x null(A^H) by (1+gamma) per step (3 per step for the third-order map): (XA - I) E = -E there.
        # A faithful implementation must show this growth, so it is part of the budget (full-rank inputs: no growth).
        growth = 1.0
        if r < min(m, n):
            growth = (1.0 + case["gamma"]) ** k if case["solver"] == "damped" else 3.0 ** k
        tolX = O.budget(max(O.fro(Xm), 1e-300), dims=64 * k * cond) * growth + 64 * O.U * growth * max(O.fro(Xm), 1.0 / max(nA, 1e-300)) * (1 if r else 0)
        if case.get("vals"):
            tolX = O.budget(O.fro(Xm), dims=cond)  # measured on the pinned tree: <= 2e-8 ||X_k|| at cond 1.3e8 (u cond); budget 2^10 u cond
        dev = O.fro(X - Xm)
        if dev > tolX:
            fails.append(fail("iterate!=spectral_model", f"k={k}: ||X_k - V diag(t_k/s) U^H||_F = {dev:.3e} (budget {tolX:.1e}, ||X_k||={O.fro(Xm):.3e})", k=k, **tags))
            break
        # zero singular directions untouched
        if r < min(m, n) or m != n:
            leak = O.fro(X - O.qmatmul(O.qmatmul(Vr, O.qmatmul(O.qH(Vr), X)), O.qmatmul(Ur, O.qH(Ur)))) if r else O.fro(X)
            if leak > tolX:
                fails.append(fail("null_directions_untouched", f"k={k}: component outside range(A^H) {leak:.3e}", k=k, **tags))
                break
        # monotone residual
        e_k = O.fro(O.qmatmul(O.qmatmul(A, X), A) - A)
        if e_k > e_prev * (1 + 1e-12) + floor:
            fails.append(fail("AXA-A_monotone", f"k={k}: ||A X_k A - A|| = {e_k:.6e} > previous {e_prev:.6e}", k=k, **tags))
            break
        e_prev = e_k
        # returned histories are truthful and prefix-stable
        if case["cr"] or case["solver"] == "third":
            pr = penrose(A, X)
            lens = {key: len(v) for key, v in resid.items()}
            if set(lens.values()) != {k}:
                fails.append(fail("history_length", f"k={k}: {lens}", k=k, **tags))
                break
            nX = O.fro(X)
            key_scale = {"AXA-A": nA * nA * nX, "XAX-X": nX * nX * nA, "AX-herm": nA * nX, "XA-herm": nA * nX}
            for key, val in pr.items():
                rep = resid[key][-1]
                # two evaluations of the same residual differ by the rounding of the products involved: a few n u (product of the factor norms)
                if abs(rep - val) > 64 * O.U * max(m, n) * max(key_scale[key], 1e-300) * growth + 1e-12 * val:
                    fails.append(fail("residual_history_truthful", f"k={k}: reported {key} = {rep!r}, recomputed from the returned iterate {val!r}", k=k, hist=key, **tags))
            cur = {key: list(v) for key, v in resid.items()}
            if prev_res is not None and any(cur[key][: len(prev_res[key])] != prev_res[key] for key in cur):
                fails.append(fail("history_prefix_stable", f"k={k}: history of budget k-1 is not a prefix", k=k, **tags))
            prev_res = cur
        else:
            if any(len(v) for v in resid.values()):
                fails.append(fail("history_length", f"k={k}: residuals tracked although compute_residuals=False", k=k, **tags))
        if case["solver"] == "damped":
            cov = list(third)
            if len(cov) != k:
                fails.append(fail("history_length", f"k={k}: {len(cov)} covariance entries", k=k, **tags))
            elif (k - 1) in Xs:
                Xprev = Xs[k - 1]
                I_t = O.qeye(n if m >= n else m)
                val = O.fro((O.qmatmul(Xprev, A) if m >= n else O.qmatmul(A, Xprev)) - I_t)
                if abs(cov[-1] - val) > 1e-10 * max(1.0, val):
                    fails.append(fail("covariance_history_truthful", f"k={k}: reported {cov[-1]!r}, ||X_(k-1) A - I|| = {val!r}", k=k, **tags))
            if len(cov) == k:
                if prev_cov is not None and cov[: len(prev_cov)] != prev_cov:
                    fails.append(fail("history_prefix_stable", f"k={k}: covariance history not a prefix", k=k, **tags))
                prev_cov = cov
        if fails:
            break
        steps_ok += 1
    if not fails:
        # verbose=True must not change what is computed (budgets 0, 1 and 3)
        for kb in (0, 1, 3):
            okq, rq = quiet_call(make(kb, 0.0).compute, Ain)
            okv, rv = quiet_call(make(kb, 0.0, verbose=True).compute, Ain)
            if okq and okv and case["solver"] == "third":
                rq, rv = rq[:2], rv[:2]  # the third output of the third-order solver is a list of wall-clock times
            if okq != okv or (okq and canon_value(rq) != canon_value(rv)):
                fails.append(fail("verbose_changes_result", f"budget {kb}: verbose=True {'raises ' + repr(rv) if not okv else 'returns a different value'}", k=kb, **tags))
    if before is not None and Ain.tobytes() != before:
        fails.append(fail("input_unchanged", "compute modified its argument", **tags))
    return {
        "key": case["key"],
        "fails": fails,
        "nontrivial": r >= 1,
        "digest": digest(A, case["key"].split("/")[0], case["gamma"], case["cr"], case["sparse"]),
        "states": states,
        "transitions": steps_ok,
        "traces": 1 if (not fails and (steps_ok == K or case.get("vals"))) else 0,
        "path": f"{case['solver']},{'left' if m >= n else 'right'},r{'<' if r < min(m, n) else '='}p",
        "obs": [steps_ok, [f["clause"] for f in fails]],
    }
