"""C15 — matrix norms are genuine, mutually consistent norms.

Letters have integer moduli (Pythagorean quadruples), so 1-, inf- and Frobenius norms have
exact expected values; 2-norm against singular values of the complex adjoint.
"""
from __future__ import annotations

import itertools
import math

import numpy as np
from scipy import sparse as sp

from checks.common import comps, hash_tag, to_sparse, relayout, xf_build, xf_names, canonical_probes, orthonormal_completion
from qmc import gen as G
from qmc import oracle as O
from qmc.loader import load
from qmc.run import call, fail

ID = "C15"
LEVEL = "model_checking"
RULE = (
    "cases = (definition|axioms|ord table) x shape; definition cells: every pool matrix x every entry point; axiom cells: "
    "every ordered pair (and triples of a sub-pool) of the pool; non-trivial = matrix non-zero; evaluations = library norm calls compared"
)
BOUNDS = {
    "quick": "shapes m,n<=3 (all rectangular), pool of 24 matrices per shape from 14 integer-modulus letters, all ordered pairs, triples of an 6-matrix sub-pool, 5 scalars, 7 valid + 9 invalid ord spellings; definition cells at whole-matrix scalings 1, 1/2, 2^20, 2^-60, 2^-200, 2^200; larger shapes and 15 component masks; np.matrix / todense planes",
    "thorough": "shapes<=5",
}
THOROUGH_STREAMS = 8
WALL_BUDGET = {"quick": 300, "thorough": 2400}
ASSUMPTIONS = ["2-norm compared with LAPACK singular values of the complex adjoint (budget 2^10 u ||A||)"]

LETTERS = [
    (0, 0, 0, 0), (1, 0, 0, 0), (0, -1, 0, 0), (0, 0, 2, 0), (0, 0, 0, -1), (0, 3, 4, 0), (1, 2, 2, 0), (1, 1, 1, 1),
    (-3, 0, 0, 4), (0, 0, 12, 5), (2, 3, 6, 0), (1, 4, 8, 0), (-2, 4, 4, 0), (1, -1, -1, 1),
]
MOD = [int(round(math.sqrt(sum(c * c for c in q)))) for q in LETTERS]
assert all(m * m == sum(c * c for c in q) for m, q in zip(MOD, LETTERS))


def pool(m, n, size, fill):
    out = []
    # structured members first
    idx0 = np.zeros((m, n), dtype=int)
    out.append(idx0.copy())  # zero matrix
    for t in range(1, 5):
        a = idx0.copy()
        a[(t - 1) % m, (t * 2) % n] = t + 4
        out.append(a)
    while len(out) < size:
        out.append(fill.ints((m, n), 0, len(LETTERS) - 1))
    return out[:size]


def mat(idx):
    A = np.zeros(idx.shape + (4,), dtype=np.int64)
    for p in np.ndindex(idx.shape):
        A[p] = LETTERS[idx[p]]
    return A


def moduli(idx):
    return np.vectorize(lambda t: MOD[t])(idx)


def _padded_dia(c):
    """the same matrix as DIA storage with full-length diagonals whose out-of-range slots hold non-zero padding."""
    c = np.asarray(c, float)
    m, n = c.shape
    offs = list(range(-(m - 1), n))
    L = n  # scipy's dia data has one row per offset and n columns; entry (i, j) of offset k lives at data[k_idx, j]
    data = np.full((len(offs), L), 7.25)  # padding value, never part of the matrix
    for t, k in enumerate(offs):
        for j in range(n):
            i = j - k
            if 0 <= i < m:
                data[t, j] = c[i, j]
    return sp.dia_matrix((data, offs), shape=(m, n))


def _coo_dup(c):
    c = np.asarray(c, float)
    r, k = np.nonzero(np.ones_like(c))
    return sp.coo_matrix((np.concatenate([c[r, k] * 0.25, c[r, k] * 0.75]), (np.concatenate([r, r]), np.concatenate([k, k]))), shape=c.shape)



def _dedupe(cases_):
    """the same cell can be listed by two enumerations (e.g. a tall shape that the thorough bound also reaches): keep the first."""
    seen, out_ = set(), []
    for c in cases_:
        if c["key"] not in seen:
            seen.add(c["key"])
            out_.append(c)
    return out_


def cases(tier, seed):
    S = 3 if tier == "quick" else 5
    out = []
    for m, n in itertools.product(range(1, S + 1), repeat=2):
        out.append({"key": f"def/{m}x{n}", "grp": "def", "m": m, "n": n})
        out.append({"key": f"axioms/{m}x{n}", "grp": "ax", "m": m, "n": n})
        for k in range(1, S + 1):
            out.append({"key": f"submult/{m}x{k}x{n}", "grp": "sub", "m": m, "k": k, "n": n})
    out.append({"key": "ord_table", "grp": "ord"})
    for (m, n) in ((0, 0), (0, 1), (1, 0), (0, 3), (3, 0)):
        out.append({"key": f"empty/{m}x{n}", "grp": "empty", "m": m, "n": n})
    for (m, n) in ((24, 28), (30, 26), (40, 36), (2, 33), (33, 2)):
        out.append({"key": f"large/{m}x{n}", "grp": "large", "m": m, "n": n})
    for m, n in ((2, 2), (2, 3), (3, 2), (3, 3)):
        out.append({"key": f"compmask/{m}x{n}", "grp": "compmask", "m": m, "n": n})
    for m, n in itertools.product(range(1, 5), repeat=2):
        out.append({"key": f"xf/{m}x{n}", "grp": "xf", "m": m, "n": n})
    # Hermitian indefinite matrices whose diagonal is strictly positive (flat eigenbasis: every |Q_ik|^2 = 1/n) although the eigenvalue of
    # largest modulus is negative, and the mirror images; spectral norm = max |lambda|
    for n in (2, 4, 8):
        for si in range(4):
            out.append({"key": f"hermflat/n={n}/s={si}", "grp": "hermflat", "m": n, "n": n, "si": si})
    # one "flat" line (many entries of moderate modulus: largest modulus SUM) against one "spiky" line (few large entries: largest ENERGY)
    for (m, n) in ((2, 12), (3, 40), (12, 2), (40, 3), (4, 9)):
        out.append({"key": f"flatspiky/{m}x{n}", "grp": "flatspiky", "m": m, "n": n})
    # matrices whose dominant singular direction is quaternion-orthogonal to a canonical fixed probe vector, the probe being the second one
    for (m, n) in ((5, 4), (4, 5), (6, 6)):
        out.append({"key": f"probe/{m}x{n}", "grp": "probe", "m": m, "n": n})
    return _dedupe(out)


def lib_norms(lib, Aq):
    u = lib.utils
    return {
        "fro": float(u.matrix_norm(Aq, "fro")),
        "1": float(u.matrix_norm(Aq, 1)),
        "inf": float(u.matrix_norm(Aq, np.inf)),
        "2": float(u.matrix_norm(Aq, 2)),
    }


def run_case(case, seed):
    lib = load()
    u = lib.utils
    fails = []
    evals = 0
    nontriv = 0
    grp = case["grp"]
    tier_pool = 24
    fill = G.Fill(seed, stream=hash_tag(case["key"]))
    delta = 64 * O.U
    if grp == "def":
        m, n = case["m"], case["n"]
        for idx in pool(m, n, 40, fill):
            Ai = mat(idx)
            for cscale in (1.0, 0.5, 2.0 ** 20, 2.0 ** -60, 2.0 ** -200, 2.0 ** 200):
                A = Ai.astype(float) * cscale
                Aq = G.to_quat(A)
                mod = moduli(idx).astype(float) * cscale
                exp1 = float(mod.sum(axis=0).max())
                expinf = float(mod.sum(axis=1).max())
                expF = math.sqrt(float(O.fro2_exact(Ai))) * cscale
                sv = O.svals(A)
                exp2 = float(sv[0]) if len(sv) else 0.0
                nontriv += 1 if Ai.any() else 0
                tags = {"grp": "def", "shape": [m, n]}
                table = [
                    ("matrix_norm(None)", lambda: u.matrix_norm(Aq), expF, 16 * O.U * 4 * m * n * expF),
                    ("matrix_norm('fro')", lambda: u.matrix_norm(Aq, "fro"), expF, 16 * O.U * 4 * m * n * expF),
                    ("matrix_norm('F')", lambda: u.matrix_norm(Aq, "F"), expF, 16 * O.U * 4 * m * n * expF),
                    ("matrix_norm(1)", lambda: u.matrix_norm(Aq, 1), exp1, 0.0),
                    ("induced_matrix_norm_1", lambda: u.induced_matrix_norm_1(Aq), exp1, 0.0),
                    ("matrix_norm(inf)", lambda: u.matrix_norm(Aq, np.inf), expinf, 0.0),
                    ("matrix_norm('inf')", lambda: u.matrix_norm(Aq, "inf"), expinf, 0.0),
                    ("induced_matrix_norm_inf", lambda: u.induced_matrix_norm_inf(Aq), expinf, 0.0),
                    ("matrix_norm(2)", lambda: u.matrix_norm(Aq, 2), exp2, O.budget(expF, dims=4 * max(m, n))),
                    ("spectral_norm_2", lambda: u.spectral_norm_2(Aq), exp2, O.budget(expF, dims=4 * max(m, n))),
                    ("quat_frobenius_norm", lambda: u.quat_frobenius_norm(Aq), expF, 16 * O.U * 4 * m * n * expF),
                    ("quat_frobenius_norm(sparse)", lambda: u.quat_frobenius_norm(to_sparse(lib, A)), expF, 16 * O.U * 4 * m * n * expF),
                    ("matrix_norm(sparse,'fro')", lambda: u.matrix_norm(to_sparse(lib, A), "fro"), expF, 16 * O.U * 4 * m * n * expF),
                    ("matrix_norm(sparse,'F')", lambda: u.matrix_norm(to_sparse(lib, A), "F"), expF, 16 * O.U * 4 * m * n * expF),
                    ("matrix_norm(sparse,None)", lambda: u.matrix_norm(to_sparse(lib, A)), expF, 16 * O.U * 4 * m * n * expF),
                    ("normQ", lambda: u.normQ(Aq), expF, 16 * O.U * 4 * m * n * expF),
                    ("normQsparse", lambda: u.normQsparse(*comps(A)), expF, 16 * O.U * 4 * m * n * expF),
                    ("normQsparse(sp)", lambda: u.normQsparse(*[sp.csr_matrix(c) for c in comps(A)]), expF, 16 * O.U * 4 * m * n * expF),
                    ("normQsparse(csc_matrix)", lambda: u.normQsparse(*[sp.csc_matrix(c) for c in comps(A)]), expF, 16 * O.U * 4 * m * n * expF),
                    ("normQsparse(np.matrix)", lambda: u.normQsparse(*[np.asmatrix(c) for c in comps(A)]), expF, 16 * O.U * 4 * m * n * expF),
                    ("normQsparse(todense)", lambda: u.normQsparse(*[sp.csr_matrix(c).todense() for c in comps(A)]), expF, 16 * O.U * 4 * m * n * expF),
                    ("normQsparse(coo_matrix)", lambda: u.normQsparse(*[sp.coo_matrix(c) for c in comps(A)]), expF, 16 * O.U * 4 * m * n * expF),
                    ("normQsparse(csr_array)", lambda: u.normQsparse(*[sp.csr_array(c) for c in comps(A)]), expF, 16 * O.U * 4 * m * n * expF),
                    ("normQsparse(coo_array)", lambda: u.normQsparse(*[sp.coo_array(c) for c in comps(A)]), expF, 16 * O.U * 4 * m * n * expF),
                    ("normQsparse(csc_array)", lambda: u.normQsparse(*[sp.csc_array(c) for c in comps(A)]), expF, 16 * O.U * 4 * m * n * expF),
                    ("normQsparse(lil_matrix)", lambda: u.normQsparse(*[sp.lil_matrix(c) for c in comps(A)]), expF, 16 * O.U * 4 * m * n * expF),
                    ("normQsparse(dok_matrix)", lambda: u.normQsparse(*[sp.dok_matrix(c) for c in comps(A)]), expF, 16 * O.U * 4 * m * n * expF),
                    ("normQsparse(bsr_matrix)", lambda: u.normQsparse(*[sp.bsr_matrix(c) for c in comps(A)]), expF, 16 * O.U * 4 * m * n * expF),
                    ("normQsparse(dia_matrix)", lambda: u.normQsparse(*[sp.dia_matrix(c) for c in comps(A)]), expF, 16 * O.U * 4 * m * n * expF),
                    # DIA storage built from full-length diagonals (spdiags): the entries stored outside the matrix are NOT part of it
                    ("normQsparse(spdiags, padded)", lambda: u.normQsparse(*[_padded_dia(c) for c in comps(A)]), expF, 16 * O.U * 4 * m * n * expF),
                    ("normQsparse(coo duplicates)", lambda: u.normQsparse(*[_coo_dup(c) for c in comps(A)]), expF, 16 * O.U * 4 * m * n * expF),
                    ("tensor_frobenius_norm", lambda: lib.tensor.tensor_frobenius_norm(Aq), expF, 16 * O.U * 4 * m * n * expF),
                    ("tensor_frobenius_norm(3d)", lambda: lib.tensor.tensor_frobenius_norm(Aq.reshape(m, n, 1)), expF, 16 * O.U * 4 * m * n * expF),
                ]
                if n == 1:
                    table.append(("normQsparse(1-D)", lambda: u.normQsparse(*[c[:, 0] for c in comps(A)]), expF, 16 * O.U * 4 * m * n * expF))
                for nm, f, exp, tol in table:
                    ok, v = call(f)
                    evals += 1
                    if not ok:
                        fails.append(fail("norm_raised", f"{nm}: {type(v).__name__}: {v}", fn=nm, **tags))
                    elif not isinstance(v, (int, float, np.floating, np.integer)) and not (isinstance(v, np.ndarray) and v.ndim == 0):
                        fails.append(fail("norm_not_a_scalar", f"{nm} returned {type(v).__name__}", fn=nm, **tags))
                    elif not (abs(float(v) - exp) <= tol):
                        fails.append(fail("norm!=definition", f"{nm} = {float(v)!r}, definition gives {exp!r} (A idx={idx.tolist()} scale={cscale})", fn=nm, **tags))
                ok, ab = call(lib.tensor.tensor_entrywise_abs, Aq)
                evals += 1
                if not ok or not np.array_equal(np.asarray(ab), mod):
                    fails.append(fail("entrywise_abs", f"idx={idx.tolist()}", fn="tensor_entrywise_abs", **tags))
                # cross-norm inequalities
                r = O.rank(A)
                if not exp2 <= expF * (1 + delta) or not expF <= math.sqrt(max(r, 0)) * exp2 * (1 + delta) + (0 if r else 0):
                    pass  # oracle-side identity, not a library statement
                ok, ns = call(lib_norms, lib, Aq)
                if ok:
                    if not ns["2"] <= ns["fro"] * (1 + delta) + 1e-300:
                        fails.append(fail("2<=F", f"{ns}", **tags))
                    if not ns["fro"] <= math.sqrt(r) * ns["2"] * (1 + 1e-10) + 1e-300:
                        fails.append(fail("F<=sqrt(rank)*2", f"{ns} rank={r}", **tags))
                    if not ns["2"] ** 2 <= ns["1"] * ns["inf"] * (1 + 1e-10) + 1e-300:
                        fails.append(fail("2^2<=1*inf", f"{ns}", **tags))
    elif grp == "ax":
        m, n = case["m"], case["n"]
        P = pool(m, n, tier_pool, fill)
        mats = [mat(i).astype(float) for i in P]
        norms = []
        for A in mats:
            ok, ns = call(lib_norms, lib, G.to_quat(A))
            evals += 4
            if not ok:
                fails.append(fail("norm_raised", f"{ns}", grp="ax"))
                return {"key": case["key"], "fails": fails, "evals": evals, "nontrivial_n": 0}
            norms.append(ns)
        # homogeneity with real and unit-quaternion scalars
        qs = [np.array([0.0, 0, 0, 0]), np.array([-1.0, 0, 0, 0]), np.array([0.5, 0, 0, 0]), np.array([2.0 ** 20, 0, 0, 0]), np.array([0.5, -0.5, 0.5, 0.5]), np.array([0.0, 0.6, 0, -0.8])]
        for A, ns in zip(mats, norms):
            for q in qs:
                cabs = float(np.sqrt((q ** 2).sum()))
                for side in ("L", "R"):
                    qa = np.broadcast_to(q, A.shape)
                    B = O.qmul(qa, A) if side == "L" else O.qmul(A, qa)
                    ok, nb = call(lib_norms, lib, G.to_quat(B))
                    evals += 4
                    if not ok:
                        fails.append(fail("norm_raised", f"{nb}", grp="ax"))
                        continue
                    for key in ("fro", "1", "inf", "2"):
                        if abs(nb[key] - cabs * ns[key]) > 1e-12 * max(1.0, cabs * ns[key]):
                            fails.append(fail("homogeneity", f"ord={key} side={side} q={q.tolist()}: {nb[key]!r} vs |q|*{ns[key]!r}", ord=key, grp="ax"))
        for (A, na), (B, nb) in itertools.product(zip(mats, norms), repeat=2):
            ok, nsum = call(lib_norms, lib, G.to_quat(A + B))
            evals += 4
            nontriv += 1 if (A.any() and B.any()) else 0
            if not ok:
                fails.append(fail("norm_raised", f"{nsum}", grp="ax"))
                continue
            for key in ("fro", "1", "inf", "2"):
                if not nsum[key] <= (na[key] + nb[key]) * (1 + 1e-12) + 1e-300:
                    fails.append(fail("triangle", f"ord={key}: ||A+B||={nsum[key]!r} > {na[key]!r}+{nb[key]!r}", ord=key, grp="ax"))
                if nsum[key] < 0 or na[key] < 0:
                    fails.append(fail("nonnegative", f"ord={key}", ord=key, grp="ax"))
        for A, ns in zip(mats, norms):
            z = not A.any()
            for key in ("fro", "1", "inf", "2"):
                if (ns[key] == 0.0) != z:
                    fails.append(fail("definite", f"ord={key}: norm={ns[key]!r} zero-matrix={z}", ord=key, grp="ax"))
    elif grp == "sub":
        m, k, n = case["m"], case["k"], case["n"]
        PA = [mat(i).astype(float) for i in pool(m, k, 12, fill)]
        PB = [mat(i).astype(float) for i in pool(k, n, 12, fill)]
        nA = [lib_norms(lib, G.to_quat(A)) for A in PA]
        nB = [lib_norms(lib, G.to_quat(B)) for B in PB]
        for (A, na), (B, nb) in itertools.product(zip(PA, nA), zip(PB, nB)):
            ok, nc = call(lib_norms, lib, G.to_quat(O.qmatmul(A, B)))
            evals += 4
            nontriv += 1 if (A.any() and B.any()) else 0
            if not ok:
                fails.append(fail("norm_raised", f"{nc}", grp="sub"))
                continue
            for key in ("fro", "1", "inf", "2"):
                if not nc[key] <= na[key] * nb[key] * (1 + 1e-12) + 1e-300:
                    fails.append(fail("submultiplicative", f"ord={key}: ||AB||={nc[key]!r} > {na[key]!r}*{nb[key]!r}", ord=key, grp="sub"))
        if m == k == n:
            sub = list(zip(PA, nA))[:6]
            for (A, na), (B, nb), (Cc, ncc) in itertools.product(sub, repeat=3):
                ok, nabc = call(lib_norms, lib, G.to_quat(O.qmatmul(O.qmatmul(A, B), Cc)))
                evals += 4
                if ok:
                    for key in ("fro", "1", "inf", "2"):
                        if not nabc[key] <= na[key] * nb[key] * ncc[key] * (1 + 1e-12) + 1e-300:
                            fails.append(fail("submultiplicative3", f"ord={key}", ord=key, grp="sub"))
    elif grp in ("large", "compmask", "xf", "hermflat", "probe", "flatspiky"):
        m, n = case["m"], case["n"]
        mats_ = []
        if grp == "large":
            # slowly decaying spectrum: every singular value matters for the 2-norm only through the largest one
            for flat in (False, True):
                B_ = fill.quat(m, n, bits=4, lo=-40, hi=40)
                if flat:
                    Uq_, Vq_ = G.unitary("hh", m, fill, 1), G.unitary("hh", n, fill, 2)
                    B_ = G.with_spectrum(Uq_, [1.0 - 0.01 * t for t in range(min(m, n))], Vq_)
                mats_.append(B_)
        elif grp == "xf":
            for nm_ in xf_names(m, n):
                mats_.append(xf_build(nm_, m, n, fill))
        elif grp == "flatspiky":
            wide = n >= m
            L = max(m, n)
            for spike in (1, 2):
                Aw = np.zeros((min(m, n), L, 4))
                for j in range(L):
                    Aw[0, j] = G.SIGNED_UNITS[(3 * j + 1) % 8].astype(float)  # flat line: L entries of modulus 1 -> sum L, energy L
                for t in range(spike):
                    Aw[1, (5 * t + 2) % L] = np.array([1.0, 1.0, 1.0, 1.0]) * (0.45 * L / spike)  # spiky line: sum 0.9 L, energy >> L
                for i in range(2, min(m, n)):
                    Aw[i, (i * 3) % L, 2] = 0.5
                mats_.append(Aw if wide else np.ascontiguousarray(O.qH(Aw)))
        elif grp == "probe":
            for side in ("right", "left"):
                N_ = n if side == "right" else m
                for pname, g in canonical_probes(N_):
                    cols = np.concatenate([g, fill.quat(N_, 2, bits=4, lo=-24, hi=24)], axis=1)
                    Qp = orthonormal_completion(cols)  # column 0 = probe direction, columns 1,2 orthogonal to it
                    Wp = orthonormal_completion(fill.quat(m if side == "right" else n, 3, bits=4, lo=-24, hi=24))
                    # sigma = 3 on a direction orthogonal to the probe, 2 on the probe itself, 0.01 on a third
                    Ap = 3.0 * O.qmatmul(Wp[:, 0:1], O.qH(Qp[:, 1:2])) + 2.0 * O.qmatmul(Wp[:, 1:2], O.qH(Qp[:, 0:1])) + 0.01 * O.qmatmul(Wp[:, 2:3], O.qH(Qp[:, 2:3]))
                    mats_.append(Ap if side == "right" else O.qH(Ap))
        elif grp == "hermflat":
            Hd = np.array([[1.0]])
            while Hd.shape[0] < n:
                Hd = np.block([[Hd, Hd], [Hd, -Hd]])
            Qf = np.zeros((n, n, 4))
            for i in range(n):
                ph = G.SIGNED_UNITS[(3 * i + case["si"]) % 8].astype(float)
                for k_ in range(n):
                    Qf[i, k_] = ph * Hd[i, k_] / math.sqrt(n)
            base_l = [-3.0, 2.6, 2.2, 1.8, 1.5, 1.25, 1.0, 0.5][:n] if n > 2 else [-3.0, 3.5]
            lam = {0: base_l, 1: [-x for x in base_l], 2: [base_l[0] * 2] + base_l[1:], 3: base_l[::-1]}[case["si"]]
            Ah = O.qmatmul(O.qmatmul(Qf, G.diag_real(lam, n, n)), O.qH(Qf))
            Ah = 0.5 * (Ah + O.qH(Ah))
            for i in range(n):
                Ah[i, i, 1:] = 0.0
            mats_ += [Ah, -Ah, O.qmatmul(Ah, Ah)]
        else:
            for mask in G.COMPONENT_MASKS:
                B_ = fill.quat_int(m, n, -4, 4).astype(float)
                B_[B_ == 0] = 3.0
                mats_.append(G.apply_component_mask(B_, mask))
        for A in mats_:
            lay_ = "C"
            if isinstance(A, tuple):
                A, lay_ = A
            Aq = relayout(G.to_quat(A), lay_)
            sv = O.svals(A)
            exp2, expF = float(sv[0]), O.fro(A)
            mod = O.qabs(A)
            exp1, expinf = float(mod.sum(axis=0).max()), float(mod.sum(axis=1).max())
            nontriv += 1
            for nm, f, exp, tol in (
                ("matrix_norm(2)", lambda: u.matrix_norm(Aq, 2), exp2, O.budget(expF, dims=4 * max(m, n))),
                ("spectral_norm_2", lambda: u.spectral_norm_2(Aq), exp2, O.budget(expF, dims=4 * max(m, n))),
                ("matrix_norm('fro')", lambda: u.matrix_norm(Aq, "fro"), expF, 64 * O.U * 4 * m * n * expF),
                ("matrix_norm(1)", lambda: u.matrix_norm(Aq, 1), exp1, 64 * O.U * m * exp1),
                ("matrix_norm(inf)", lambda: u.matrix_norm(Aq, np.inf), expinf, 64 * O.U * n * expinf),
            ):
                ok, v = call(f)
                evals += 1
                if not ok:
                    fails.append(fail("norm_raised", f"{nm}: {v}", fn=nm, grp=grp))
                elif not abs(float(v) - exp) <= tol:
                    fails.append(fail("norm!=definition", f"{nm} = {float(v)!r}, definition gives {exp!r} ({grp} {m}x{n})", fn=nm, grp=grp))
    elif grp == "empty":
        # empty shapes: every norm is the norm of an empty sum / an empty maximum = 0.0 (all entry points agree)
        m, n = case["m"], case["n"]
        Aq = np.zeros((m, n), dtype=np.quaternion)
        nontriv = 0
        for nm, f in (("matrix_norm(None)", lambda: u.matrix_norm(Aq)), ("matrix_norm('fro')", lambda: u.matrix_norm(Aq, "fro")), ("matrix_norm(1)", lambda: u.matrix_norm(Aq, 1)),
                      ("matrix_norm(inf)", lambda: u.matrix_norm(Aq, np.inf)), ("matrix_norm(2)", lambda: u.matrix_norm(Aq, 2)), ("induced_matrix_norm_1", lambda: u.induced_matrix_norm_1(Aq)),
                      ("induced_matrix_norm_inf", lambda: u.induced_matrix_norm_inf(Aq)), ("spectral_norm_2", lambda: u.spectral_norm_2(Aq)), ("quat_frobenius_norm", lambda: u.quat_frobenius_norm(Aq)),
                      ("normQ", lambda: u.normQ(Aq)), ("tensor_frobenius_norm", lambda: lib.tensor.tensor_frobenius_norm(Aq))):
            ok, v = call(f)
            evals += 1
            if not ok:
                fails.append(fail("norm_raised", f"{nm} on an empty {m}x{n} matrix: {type(v).__name__}: {v}", fn=nm, grp="empty"))
            elif float(v) != 0.0:
                fails.append(fail("norm!=definition", f"{nm} on an empty {m}x{n} matrix = {float(v)!r}", fn=nm, grp="empty"))
    else:
      shapes_ = {"2x3": np.array([[5, 6, 1], [2, 9, 3]]), "1x3": np.array([[5, 6, 2]]), "3x1": np.array([[5], [6], [2]]), "1x1": np.array([[9]]), "2x2": np.array([[5, 6], [2, 9]]),
                 "zero2x3": np.zeros((2, 3), dtype=int), "zero1x1": np.zeros((1, 1), dtype=int), "zero3x3": np.zeros((3, 3), dtype=int), "single_entry": np.array([[0, 0], [5, 0]])}
      for shp_name, idx_ in shapes_.items():
        A = mat(idx_).astype(float)  # non-symmetric moduli; row / column vectors and 1x1 included
        Aq = G.to_quat(A)
        nontriv = 1
        good = {"None": None, "'fro'": "fro", "'F'": "F", "1": 1, "2": 2, "np.inf": np.inf, "'inf'": "inf", "1.0": 1.0, "2.0": 2.0, "float('inf')": float("inf"),
                "np.int64(1)": np.int64(1), "np.int32(2)": np.int32(2), "np.float64(2)": np.float64(2.0), "np.float32(inf)": np.float32(np.inf), "np.int8(1)": np.int8(1)}
        modA = O.qabs(A)
        expect = {"fro": O.fro(A), 1: float(modA.sum(axis=0).max()), 2: float(O.svals(A)[0]), "inf": float(modA.sum(axis=1).max())}
        kind_of = {"None": "fro", "'fro'": "fro", "'F'": "fro", "1": 1, "2": 2, "np.inf": "inf", "'inf'": "inf", "1.0": 1, "2.0": 2, "float('inf')": "inf",
                   "np.int64(1)": 1, "np.int32(2)": 2, "np.float64(2)": 2, "np.float32(inf)": "inf", "np.int8(1)": 1}
        for nm, o in good.items():
            ok, v = call(u.matrix_norm, Aq, o)
            evals += 1
            if not ok:
                fails.append(fail("valid_ord_rejected", f"ord={nm} on {shp_name}: {v}", ord=nm, shape=shp_name, grp="ord"))
            elif abs(float(v) - expect[kind_of[nm]]) > 1e-12 * expect[kind_of[nm]]:
                fails.append(fail("ord_spelling_selects_wrong_norm", f"ord={nm}: {float(v)!r}, the {kind_of[nm]}-norm is {expect[kind_of[nm]]!r}", ord=nm, shape=shp_name, grp="ord"))
        bad = {"'nuc'": "nuc", "0": 0, "-1": -1, "3": 3, "'Fro'": "Fro", "'2'": "2", "-np.inf": -np.inf, "'f'": "f", "'1'": "1", "-2": -2, "1.5": 1.5,
               "[1]": [1], "(1, 2)": (1, 2), "b'fro'": b"fro", "{}": {}, "np.int64(3)": np.int64(3), "'frobenius'": "frobenius", "'Inf'": "Inf"}
        for nm, o in bad.items():
            ok, v = call(u.matrix_norm, Aq, o)
            evals += 1
            if ok:
                fails.append(fail("unknown_ord_accepted", f"ord={nm} on {shp_name} returned {v!r}", ord=nm, shape=shp_name, grp="ord"))
    return {
        "key": case["key"],
        "fails": fails[:40],
        "evals": max(evals, 1),
        "nontrivial_n": nontriv,
        "transitions": max(evals, 1),
        "traces": max(evals - len(fails), 0),
        "obs": {"evals": evals, "fails": len(fails)},
    }
