"""C19 — power iteration returns a unit vector and converges to the dominant eigenpair.

The start vector is the only scheduler: it is enumerated through the global seed
(np.random.seed) and through the create_test_matrix seam (the function is imported by
power_iteration at call time; the worker replaces it by a stub returning the next vector of
an enumerated list).  Model: power method on the prescribed spectrum.
"""
from __future__ import annotations

import itertools
import math
import sys

import numpy as np

from checks.common import canon_value, hash_tag, quiet_call, to_sparse
from qmc import gen as G
from qmc import oracle as O
from qmc.loader import load
from qmc.run import call, digest, fail

ID = "C19"
LEVEL = "model_checking"
RULE = (
    "cases = Hermitian spectrum (dominant sign, gap ratio, signs/zeros/repeats of the rest) x eigenbasis x start (seed | enumerated generic start | Q8 start) "
    "x (tol, budget); arbitrary inputs for the boundedness clauses; complex-adjoint variant x seed x format; states = (input, start, budget) end states, "
    "transitions = budget increments compared; non-trivial = A non-zero; distinct = sha1(input, start, options)"
)
BOUNDS = {
    "quick": "n<=4; lambda1 in {2,-2}; |lambda2/lambda1| in {0,0.5,0.8}; seeds 0..7; 4 enumerated generic starts; all signed Q8 basis starts (boundedness clauses only); budgets {1,5,50,500}; tol {1e-6,1e-10,1e-12}",
    "thorough": "seeds 0..63, 16 generic starts",
}
THOROUGH_STREAMS = 8
WALL_BUDGET = {"quick": 600, "thorough": 3400}
ASSUMPTIONS = [
    "'enough iterations' = 500; accuracy demanded: residual <= |lambda1| max(1e-5, 30 sqrt(1e-3 tol), 30 tol/(1-rho))",
    "Q8 basis starts are measure-zero starts: only the unconditional clauses (unit norm, bound by the spectral norm) are demanded there",
]


class seam:
    """Replace data_gen.create_test_matrix by a stub returning a prescribed start vector."""

    def __init__(self, start):
        self.start = start

    def __enter__(self):
        self.mods = [m for name, m in sys.modules.items() if name in ("data_gen", "quatica.data_gen") and m is not None]
        self.saved = [m.create_test_matrix for m in self.mods]
        st = self.start

        def stub(m, n, rank=None, cond_number=None):
            assert (m, n) == st.shape[:2], (m, n, st.shape)
            return G.to_quat(st)

        for m in self.mods:
            m.create_test_matrix = stub
        return self

    def __exit__(self, *a):
        for m, f in zip(self.mods, self.saved):
            m.create_test_matrix = f
        return False


def spectra(n):
    out = []
    for l1 in (2.0, -2.0):
        if n == 1:
            out.append(([l1], 0.0))
            continue
        for ratio in (0.0, 0.5, 0.8):
            l2m = ratio * 2.0
            for s2 in ((1, -1) if ratio > 0 else (1,)):
                l2 = s2 * l2m
                rest_opts = [l2, -l2, 0.0] if ratio > 0 else [0.0]
                for rest in itertools.product(rest_opts, repeat=max(n - 2, 0)):
                    lam = [l1, l2] + list(rest)
                    if any(abs(x) > l2m + 1e-15 for x in lam[1:]):
                        continue
                    out.append((lam, ratio))
    # dedupe
    seen, res = set(), []
    for lam, ratio in out:
        key = (lam[0], tuple(sorted(lam[1:])))
        if key not in seen:
            seen.add(key)
            res.append((lam, ratio))
    return res


def cases(tier, seed):
    S = 8 if tier == "quick" else 64
    NG = 4 if tier == "quick" else 16
    out = []
    for n in range(1, 5):
        for si, (lam, ratio) in enumerate(spectra(n)):
            for kind in (("id",) if n == 1 else ("mono", "hh")):
                base = f"herm/n={n}/s={si}/{kind}"
                for sd in range(S):
                    tol = (1e-6, 1e-10, 1e-12)[sd % 3]
                    out.append({"key": f"{base}/seed={sd}", "grp": "herm", "n": n, "lam": lam, "ratio": ratio, "kind": kind, "start": ["seed", sd], "tol": tol})
                for g in range(NG):
                    tol = (1e-10, 1e-12, 1e-6)[g % 3]
                    out.append({"key": f"{base}/gstart={g}", "grp": "herm", "n": n, "lam": lam, "ratio": ratio, "kind": kind, "start": ["fill", g], "tol": tol})
                out.append({"key": f"{base}/q8starts", "grp": "q8", "n": n, "lam": lam, "ratio": ratio, "kind": kind})
                if kind in ("id", "hh"):
                    for e in (-50, 40):  # whole-matrix scaling: every clause is relative to |lambda_max|
                        out.append({"key": f"{base}/scale=2^{e}", "grp": "herm", "n": n, "lam": [float(np.ldexp(x, e)) for x in lam], "ratio": ratio, "kind": kind,
                                    "start": ["seed", 1], "tol": 1e-10})
    for n in range(2, 6):
        for sk in ("ones_nondominant", "ek_nondominant", "path_laplacian", "circulant"):
            for sd in range(min(S, 8)):
                out.append({"key": f"structured/{sk}/n={n}/seed={sd}", "grp": "herm", "n": n, "lam": None, "ratio": None, "kind": sk, "start": ["seed", sd], "tol": 1e-10, "structured": sk})
    for n in range(1, 5):
        for st in ("nonherm", "nilpotent", "zero", "rank1", "skew", "imag_identity", "skew_diag"):
            for sd in range(4):
                out.append({"key": f"arb/{st}/n={n}/seed={sd}", "grp": "arb", "st": st, "n": n, "seed": sd})
    # many starts on spectra with a cluster of sub-dominant eigenvalues of BOTH signs right at the gap (|lambda_2/lambda_1| = 0.8): "from every
    # random start" - the start vector is the only scheduler, seeds 0..1499 (thorough 0..9999) are enumerated in blocks of 100
    MS = 15 if tier == "quick" else 100
    for si in range(3):
        for blk in range(MS):
            out.append({"key": f"manystarts/s={si}/seeds={blk * 100}-{blk * 100 + 99}", "grp": "manystarts", "si": si, "blk": blk})
    # option grid: verbose x return_eigenvalue x budget (incl. 0) x inputs on which no / one / all iterations complete
    for n in (1, 2, 3):
        for st in ("zero", "identity", "herm", "nonherm", "nilpotent"):
            out.append({"key": f"opts/{st}/n={n}", "grp": "opts", "st": st, "n": n})
    for n in range(1, 5):
        for st in ("nonherm", "herm", "complexlike"):
            for sd in range(S if tier == "quick" else 16):
                for fmt in ("complex", "quaternion"):
                    out.append({"key": f"nh/{st}/n={n}/seed={sd}/{fmt}", "grp": "nh", "st": st, "n": n, "seed": sd, "fmt": fmt})
    return out


def structured_herm(sk, n):
    """Hermitian integer-like matrices with a structured non-dominant eigenvector; returns (A, lam sorted by |.| desc, dominant eigenvector)."""
    one = np.ones((n, 1)) / np.sqrt(n)
    alt = np.array([[(-1.0) ** i] for i in range(n)]) / np.sqrt(n)
    if sk == "ones_nondominant":
        if n % 2 == 0:
            M = 1.0 * one @ one.T + 3.0 * alt @ alt.T
        else:
            e = np.zeros((n, 1)); e[0, 0] = 1.0; e[1, 0] = -1.0; e /= np.sqrt(2)
            M = 1.0 * one @ one.T + 3.0 * e @ e.T
    elif sk == "ek_nondominant":
        M = np.diag([1.0] + [0.5] * (n - 2) + [-3.0])
    elif sk == "path_laplacian":
        M = np.zeros((n, n))
        for i in range(n):
            M[i, i] = 2.0 if 0 < i < n - 1 else 1.0
            if i + 1 < n:
                M[i, i + 1] = M[i + 1, i] = -1.0
    else:  # circulant with first row (2, -1, 0, ..., 0, -1)
        M = 2.0 * np.eye(n)
        for i in range(n):
            M[i, (i + 1) % n] += -1.0
            M[i, (i - 1) % n] += -1.0
    A = np.zeros((n, n, 4))
    A[..., 0] = M
    return A


def herm_matrix(case, seed):
    n = case["n"]
    fill = G.Fill(seed, stream=hash_tag(f"{n}/{case['kind']}/{case['lam']}"))
    V = G.unitary(case["kind"], n, fill, variant=n + len(case["lam"]))
    return G.herm_with_spectrum(V, case["lam"]), V


def unit_checks(v, est, A, tags, fails, label):
    n = A.shape[0]
    vf = G.from_quat(np.asarray(v)).reshape(n, 1, 4)
    if not O.is_finite(vf):
        fails.append(fail("vector_finite", f"{label}", **tags))
        return None
    nv = O.fro(vf)
    if abs(nv - 1.0) > 64 * O.C * O.U:
        fails.append(fail("unit_norm", f"{label}: ||v|| = {nv!r}", **tags))
    if est is not None:
        s = O.svals(A)
        smax = float(s[0]) if len(s) else 0.0
        if not np.isfinite(est) or est < 0 or est > smax * (1 + 1e-10) + 1e-300:
            fails.append(fail("estimate<=spectral_norm", f"{label}: estimate {est!r} > ||A||_2 = {smax!r}", **tags))
        # the estimate is the modulus of the Rayleigh quotient v^H A v / v^H v of the RETURNED vector
        num = O.qmatmul(O.qH(vf), O.qmatmul(A, vf))[0, 0]
        den = float(np.sum(vf ** 2))
        rq = float(np.sqrt(np.sum(num ** 2))) / den if den > 0 else 0.0
        if np.isfinite(est) and abs(est - rq) > 1e-10 * max(smax, 1e-300) + 1e-300:
            fails.append(fail("estimate=|rayleigh_quotient|", f"{label}: estimate {est!r}, |v^H A v| / v^H v = {rq!r}", **tags))
    return vf


def _nogap(lib, case, A, lam):
    """spectra without a gap: unit norm and the bound by the spectral norm still hold."""
    fails = []
    np.random.seed(case["start"][1])
    ok, res = call(lib.utils.power_iteration, G.to_quat(A), 50, 1e-10, True)
    tags = {"grp": "herm", "n": case["n"], "structured": case.get("structured")}
    if not ok:
        fails.append(fail("raised", f"{res}", **tags))
    else:
        unit_checks(res[0], float(res[1]), A, tags, fails, "no-gap structured input")
    return {"key": case["key"], "fails": fails, "nontrivial": True, "digest": digest(A, case["start"]), "path": "structured:nogap", "obs": [len(fails)]}


def run_case(case, seed):
    lib = load()
    u = lib.utils
    fails = []
    grp = case["grp"]
    states = []
    transitions = 0
    if grp in ("herm", "q8"):
        if case.get("structured"):
            A = structured_herm(case["structured"], case["n"])
            w_, Vr = np.linalg.eigh(A[..., 0])
            order = np.argsort(-np.abs(w_))
            lam = [float(w_[t]) for t in order]
            if len(lam) > 1 and abs(abs(lam[0]) - abs(lam[1])) < 1e-9 * abs(lam[0]):
                # no gap: only the unconditional clauses apply
                return _nogap(lib, case, A, lam)
            V = np.zeros((case["n"], case["n"], 4))
            V[..., 0] = Vr[:, order]
            case = dict(case, lam=lam, ratio=abs(lam[1] / lam[0]) if len(lam) > 1 else 0.0)
        else:
            A, V = herm_matrix(case, seed)
        n = case["n"]
        Aq = G.to_quat(A)
        lam = case["lam"]
        l1 = lam[0]
        rho = case["ratio"]
        tags = {"grp": grp, "n": n, "dominant_sign": int(np.sign(l1)), "ratio": rho}
        if grp == "q8":
            v1 = V[:, :1]
            for k in range(n):
                for ui, uu in enumerate(G.SIGNED_UNITS):
                    st = np.zeros((n, 1, 4))
                    st[k, 0] = uu
                    with seam(st):
                        ok, res = call(u.power_iteration, Aq, 50, 1e-10, True)
                    if not ok:
                        fails.append(fail("raised", f"start {G.SIGNED_NAMES[ui]}e{k}: {res}", **tags))
                        continue
                    unit_checks(res[0], float(res[1]), A, tags, fails, f"start {G.SIGNED_NAMES[ui]}e{k}")
                    states.append(digest(k, ui))
                    transitions += 1
            return {"key": case["key"], "fails": fails[:20], "nontrivial": True, "digest": digest(A, "q8"), "states": states, "transitions": transitions, "path": "q8starts", "obs": len(fails)}
        tol = case["tol"]
        kind, val = case["start"]
        if kind == "fill":
            f2 = G.Fill(seed + 7, stream=1000 + val)
            st = f2.quat(n, 1, bits=4, lo=-30, hi=30)
            if abs(O.fro(O.qmatmul(O.qH(V[:, :1]), st))) < 1e-3 * max(O.fro(st), 1e-300):
                st = st + V[:, :1]
            if not st.any():
                st[0, 0, 0] = 1.0
        prev_est = None
        res_final = None
        for budget in (1, 5, 50, 500):
            if kind == "seed":
                np.random.seed(val)
                ok, res = call(u.power_iteration, Aq, budget, tol, True)
            else:
                with seam(st):
                    ok, res = call(u.power_iteration, Aq, budget, tol, True)
            if not ok:
                fails.append(fail("raised", f"budget {budget}: {type(res).__name__}: {res}", **tags))
                break
            v, est = res[0], float(res[1])
            vf = unit_checks(v, est, A, tags, fails, f"budget {budget}")
            if vf is None:
                break
            states.append(digest(budget, vf))
            transitions += 1
            if all(x >= 0 for x in lam) and prev_est is not None and est < prev_est * (1 - 1e-12) - 1e-14:
                fails.append(fail("rayleigh_monotone_psd", f"estimate decreased from {prev_est!r} to {est!r} when the budget grew to {budget}", **tags))
            prev_est = est
            res_final = (vf, est)
        if res_final is not None and not fails:
            vf, est = res_final
            gap = 1.0 - rho
            rb = abs(l1) * max(1e-5, 30 * math.sqrt(1e-3 * tol), 30 * tol / gap)
            Av = O.qmatmul(A, vf)
            resid = O.fro(Av - l1 * vf)
            if resid > rb:
                fails.append(fail("eigenvector_residual", f"||A v - lambda1 v|| = {resid:.3e} > {rb:.3e} (lambda1 = {l1}, tol = {tol})", tol=tol, **tags))
            eb = abs(l1) * max(1e-8, 10 * (rb / abs(l1)) ** 2)
            if abs(est - abs(l1)) > eb:
                fails.append(fail("estimate=|lambda_max|", f"estimate {est!r} vs |lambda1| = {abs(l1)} (allowed {eb:.1e})", tol=tol, **tags))
        return {"key": case["key"], "fails": fails, "nontrivial": True, "digest": digest(A, case["start"], tol), "states": states, "transitions": transitions,
                "traces": 0 if fails else 1, "path": f"sign={int(np.sign(l1))},ratio={rho},start={kind}", "obs": [len(fails)]}
    if grp == "manystarts":
        lam = [[-5.0, 4.0, -4.0, 3.9, -3.9, 4.0, -4.0, 3.9, -3.9], [5.0, -4.0, 4.0, -3.9, 3.9], [-5.0, 4.0, 4.0, 3.9, -4.0, -3.9, 3.95]][case["si"]]
        n = len(lam)
        fillm = G.Fill(0, stream=4242 + case["si"])  # the matrix is the same for every VERIF_SEED: the enumeration is over the starts
        V = G.unitary("hh", n, fillm, variant=3)
        A = G.herm_with_spectrum(V, lam)
        Aq = G.to_quat(A)
        l1 = lam[0]
        fails, bad = [], 0
        for sd in range(case["blk"] * 100, case["blk"] * 100 + 100):
            np.random.seed(sd)
            ok, res = call(u.power_iteration, Aq, 500, 1e-10, True)
            if not ok:
                fails.append(fail("raised", f"seed {sd}: {type(res).__name__}: {res}", grp="manystarts", seed=sd))
                continue
            vf = G.from_quat(np.asarray(res[0])).reshape(n, 1, 4)
            est = float(res[1])
            resid = O.fro(O.qmatmul(A, vf) - l1 * vf)
            if not O.is_finite(vf) or abs(O.fro(vf) - 1.0) > 1e-12:
                fails.append(fail("unit_vector", f"seed {sd}", grp="manystarts", seed=sd))
            elif abs(est - abs(l1)) > 1e-6 * abs(l1) or resid > 1e-3 * abs(l1):
                bad += 1
                if bad <= 5:
                    fails.append(fail("estimate=|lambda_max|", f"start of global seed {sd}: estimate {est!r} vs |lambda1| = {abs(l1)}, ||A v - lambda1 v|| = {resid:.3e} (ratio 0.8, 500 iterations allowed)", grp="manystarts", seed=sd))
        return {"key": case["key"], "fails": fails, "nontrivial": True, "digest": case["key"], "evals": 100, "transitions": 100, "traces": 100 - bad, "states": [case["key"]],
                "path": "manystarts", "obs": [len(fails)]}
    if grp == "opts":
        n, st = case["n"], case["st"]
        fill = G.Fill(seed, stream=hash_tag(case["key"]))
        A = fill.quat(n, n, bits=3, lo=-16, hi=16)
        if st == "zero":
            A[:] = 0
        elif st == "identity":
            A = O.qeye(n)
        elif st == "herm":
            A = 0.5 * (A + O.qH(A))
            for i in range(n):
                A[i, i, 1:] = 0
        elif st == "nilpotent":
            for i in range(n):
                A[i, : i + 1] = 0
        Aq = G.to_quat(A)
        fails = []
        evals = 0
        s1 = O.svals(A)[0] if n else 0.0
        for budget in (0, 1, 2, 7, 100):
            for ret in (False, True):
                outs = {}
                for verbose in (False, True):
                    np.random.seed(11)
                    ok, r = quiet_call(u.power_iteration, Aq, max_iterations=budget, tol=1e-10, return_eigenvalue=ret, verbose=verbose)
                    evals += 1
                    t2 = {"grp": "opts", "st": st, "n": n, "budget": budget, "return_eigenvalue": ret, "verbose": verbose}
                    if not ok:
                        fails.append(fail("raised", f"power_iteration(max_iterations={budget}, return_eigenvalue={ret}, verbose={verbose}) on {st} {n}x{n}: {type(r).__name__}: {r}", **t2))
                        continue
                    outs[verbose] = canon_value(r)
                    v = r[0] if ret else r
                    if ret and not (isinstance(r, tuple) and len(r) == 2):
                        fails.append(fail("return_form", f"return_eigenvalue=True returned {type(r).__name__}", **t2))
                        continue
                    vf = G.from_quat(np.asarray(v))
                    if vf.shape[:2] != (n, 1) or not O.is_finite(vf) or abs(O.fro(vf) - 1.0) > 1e-12:
                        fails.append(fail("unit_vector", f"budget {budget} verbose={verbose}: shape {vf.shape[:2]}, norm {O.fro(vf) if O.is_finite(vf) else 'nan'}", **t2))
                    if ret:
                        lamv = float(r[1])
                        if not (lamv == lamv) or lamv < 0 or lamv > s1 * (1 + 1e-9) + 1e-300:
                            fails.append(fail("estimate<=spectral_norm", f"budget {budget}: estimate {lamv!r}, ||A||_2 = {s1!r}", **t2))
                if len(outs) == 2 and outs[False] != outs[True]:
                    fails.append(fail("verbose_changes_result", f"power_iteration(max_iterations={budget}, return_eigenvalue={ret}) on {st} {n}x{n}: verbose=True returns a different value", grp="opts", st=st, n=n, budget=budget))
        # the start vector is drawn from numpy's global generator: two global seeds give two different one-step iterates (n >= 2)
        if n >= 2 and st in ("herm", "nonherm"):
            vs = []
            for gs in (3, 4, 5):
                np.random.seed(gs)
                ok, r = quiet_call(u.power_iteration, Aq, max_iterations=1, tol=1e-10)
                evals += 1
                if ok:
                    vs.append(G.from_quat(np.asarray(r)).tobytes())
            if len(vs) == 3 and len(set(vs)) < 3:
                fails.append(fail("start_ignores_global_seed", f"power_iteration({st} {n}x{n}, max_iterations=1) returns the same vector for different np.random.seed values", grp="opts", st=st, n=n))
        # sparse container: same clauses on the returned pair (unit vector, estimate = |v^H A v| / v^H v <= ||A||_2)
        if st != "zero":
            As = to_sparse(lib, A)
            for budget in (1, 7, 100):
                np.random.seed(11)
                ok, r = quiet_call(u.power_iteration, As, max_iterations=budget, tol=1e-10, return_eigenvalue=True)
                evals += 1
                t2 = {"grp": "opts", "st": st, "n": n, "budget": budget, "container": "sparse"}
                if not ok:
                    fails.append(fail("raised", f"power_iteration(SparseQuaternionMatrix, budget {budget}): {type(r).__name__}: {r}", **t2))
                    continue
                vq, lamv = r
                vf = G.from_quat(np.asarray(vq)).reshape(n, 1, 4)
                if not O.is_finite(vf) or abs(O.fro(vf) - 1.0) > 1e-12:
                    fails.append(fail("unit_vector", f"sparse input, budget {budget}", **t2))
                    continue
                ray = O.qabs(O.qmatmul(O.qH(vf), O.qmatmul(A, vf))[0, 0]) / (O.fro(vf) ** 2)
                if abs(float(lamv) - ray) > 1e-9 * max(1.0, s1):
                    fails.append(fail("estimate=rayleigh_quotient", f"sparse input, budget {budget}: estimate {float(lamv)!r}, |v^H A v| / v^H v = {ray!r}", **t2))
        return {"key": case["key"], "fails": fails, "nontrivial": bool(A.any()), "digest": digest(A, "opts"), "evals": evals, "transitions": evals, "traces": evals - len(fails), "path": f"opts:{st}", "obs": len(fails)}
    if grp == "arb":
        n = case["n"]
        fill = G.Fill(seed, stream=hash_tag(case["key"].rsplit("/", 1)[0]))
        st = case["st"]
        A = fill.quat(n, n, bits=3, lo=-16, hi=16)
        if st == "nilpotent":
            for i in range(n):
                A[i, : i + 1] = 0
        elif st == "zero":
            A[:] = 0
        elif st == "rank1":
            A = O.qmatmul(fill.quat(n, 1, bits=2, lo=-4, hi=4), fill.quat(1, n, bits=2, lo=-4, hi=4))
        elif st == "skew":
            A = A - O.qH(A)
        elif st == "imag_identity":
            A = np.zeros((n, n, 4))
            for i in range(n):
                A[i, i, 1] = 1.0 + (case["seed"] % 2)
        elif st == "skew_diag":
            A = np.zeros((n, n, 4))
            for i in range(n):
                A[i, i, 1 + i % 3] = (-1.0) ** i
        tags = {"grp": "arb", "st": st, "n": n}
        Aq = G.to_quat(A)
        before = Aq.tobytes()
        for budget in (1, 7, 100):
            np.random.seed(case["seed"])
            ok, res = call(u.power_iteration, Aq, budget, 1e-10, True)
            if not ok:
                fails.append(fail("raised", f"{st} budget {budget}: {type(res).__name__}: {res}", **tags))
                continue
            unit_checks(res[0], float(res[1]), A, tags, fails, f"{st} budget {budget}")
            if st == "zero" and float(res[1]) != 0.0:
                fails.append(fail("zero_matrix_estimate", f"{res[1]!r}", **tags))
            np.random.seed(case["seed"])
            ok2, v2 = call(u.power_iteration, Aq, budget, 1e-10, False)
            if not ok2 or G.from_quat(np.asarray(v2)).tobytes() != G.from_quat(np.asarray(res[0])).tobytes():
                fails.append(fail("return_forms_agree", f"{st} budget {budget}: vector differs between return_eigenvalue=True/False", **tags))
            states.append(digest(budget, G.from_quat(np.asarray(res[0]))))
            transitions += 1
        if Aq.tobytes() != before:
            fails.append(fail("input_unchanged", "power_iteration modified its argument", **tags))
        return {"key": case["key"], "fails": fails, "nontrivial": bool(A.any()), "digest": digest(A, case["seed"]), "states": states, "transitions": transitions, "path": f"arb:{st}", "obs": [len(fails)]}
    # complex-adjoint variant
    n = case["n"]
    fill = G.Fill(seed, stream=hash_tag(f"nh/{case['st']}/{n}"))
    A = fill.quat(n, n, bits=3, lo=-16, hi=16)
    if case["st"] == "herm":
        A = 0.5 * (A + O.qH(A))
        for i in range(n):
            A[i, i, 1:] = 0
    elif case["st"] == "complexlike":
        A[..., 2:] = 0
    tags = {"grp": "nh", "st": case["st"], "n": n, "fmt": case["fmt"]}
    Aq = G.to_quat(A)
    np.random.seed(case["seed"])
    ok, res = call(u.power_iteration_nonhermitian, Aq, 300, 1e-12, 1e-10, case["seed"], True, case["fmt"])
    if not ok:
        fails.append(fail("raised", f"{type(res).__name__}: {res}", **tags))
    else:
        v, lam, resids = res
        vf = G.from_quat(np.asarray(v)).reshape(n, 1, 4)
        if not O.is_finite(vf) or abs(O.fro(vf) - 1.0) > 64 * O.C * O.U:
            fails.append(fail("unit_norm", f"||v|| = {O.fro(vf)!r}", **tags))
        if case["fmt"] == "complex":
            if not isinstance(lam, (complex, np.complexfloating)):
                fails.append(fail("eigenvalue_format", f"{type(lam).__name__}", **tags))
            im = float(np.imag(lam)) if isinstance(lam, (complex, np.complexfloating)) else 0.0
        else:
            if type(lam).__name__ != "quaternion":
                fails.append(fail("eigenvalue_format", f"{type(lam).__name__}", **tags))
                im = 0.0
            else:
                im = math.sqrt(lam.x ** 2 + lam.y ** 2 + lam.z ** 2)
                if lam.y != 0 or lam.z != 0:
                    fails.append(fail("eigenvalue_in_subfield", f"{lam}", **tags))
        if case["st"] == "herm" and im != 0.0:
            fails.append(fail("hermitian=>real_eigenvalue", f"imaginary part {im!r}", **tags))
        np.random.seed(case["seed"])
        ok2, res2 = call(u.power_iteration_nonhermitian, Aq, 300, 1e-12, 1e-10, case["seed"], False, case["fmt"])
        if not ok2 or len(res2) != 2 or repr(res2[0]) != repr(lam):
            fails.append(fail("return_forms_agree", "return_vector=False gives a different eigenvalue", **tags))
    return {"key": case["key"], "fails": fails, "nontrivial": bool(A.any()), "digest": digest(A, case["seed"], case["fmt"]), "transitions": 2, "path": f"nh:{case['st']}", "obs": [len(fails)]}
