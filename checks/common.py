"""Helpers shared by the checks (conversion between oracle arrays and library objects)."""
from __future__ import annotations

import numpy as np
from scipy import sparse as sp

from qmc import gen as G
from qmc import oracle as O


def hash_tag(tag: str) -> int:
    h = 0
    for ch in tag:
        h = (h * 131 + ord(ch)) % (1 << 30)
    return h


def to_sparse(lib, A):
    A = np.asarray(A, float)
    m, n, _ = A.shape
    return lib.utils.SparseQuaternionMatrix(
        sp.csr_matrix(A[..., 0]), sp.csr_matrix(A[..., 1]), sp.csr_matrix(A[..., 2]), sp.csr_matrix(A[..., 3]), (m, n)
    )


def sparse_to_arr(S):
    return np.stack([S.real.toarray(), S.i.toarray(), S.j.toarray(), S.k.toarray()], axis=-1)


def result_to_arr(X):
    """library product result (dense quaternion array or SparseQuaternionMatrix) -> float array."""
    if type(X).__name__ == "SparseQuaternionMatrix":
        return sparse_to_arr(X)
    return G.from_quat(X)


def comps(A):
    A = np.asarray(A, float)
    return [np.ascontiguousarray(A[..., t]) for t in range(4)]


def exact_scaled(Ai, e):
    """integer array * 2^e as float (exact when representable)."""
    return np.ldexp(np.asarray(Ai, dtype=object).astype(float), e)


def relayout(Aq, layout):
    """Same logical quaternion array in a different memory layout: 'C' (as is), 'F' (Fortran order),
    'view' (non-contiguous strided view into a larger buffer), 'T' (transposed view of the transposed data)."""
    if layout == "C":
        return Aq
    if layout == "F":
        return np.asfortranarray(Aq)
    if layout == "T":
        return np.ascontiguousarray(Aq.T).T
    if layout == "ro":  # read-only memory (np.load(mmap_mode='r'), np.frombuffer, broadcast views, ...)
        B = Aq.copy()
        B.setflags(write=False)
        return B
    if layout == "view":
        big = np.zeros(tuple(2 * d + 1 for d in Aq.shape), dtype=Aq.dtype)
        sl = tuple(slice(1, None, 2) for _ in Aq.shape)
        big[sl] = Aq
        return big[sl]
    raise ValueError(layout)


# ------------------------------------------------------------------ "unusual but legal" input variants
# One enumerated list shared by the checks: every numerical check runs its clause oracle on each of these
# variants of a matrix of the requested shape, besides its own structure classes.  The list is the union of
# the input classes that independently seeded changes needed in order to manifest (DESIGN section 11).
def xf_names(m, n, hermitian=False):
    names = [f"cm:{G.mask_name(k)}" for k in range(1, 15)]
    names += ["equalmod", "constant", "rowgraded", "colgraded", "circulant_q", "toeplitz_q", "checker", "lay:F", "lay:T", "lay:view", "lay:ro",
              "negzero_col", "negated_checker", "nearcol", "depcol1",
              "allneg", "nonpos", "nearreal", "twodeps", "halfdep_top", "halfdep_bot"]
    names += ["nearreal:10", "nearreal:14", "nearreal:20", "nearunit:+", "nearunit:-", "nearunit:cols", "blocktri2", "col0_hess"]
    names += ["blockdiag1", "blockdiag2", "arrow", "zero_row1", "zerosum:low2", "zerosum:low1", "zerosum:up1", "zerosum:all", "zerosum:imag"]
    # a sub-diagonal pivot that is tiny but genuine next to an O(1) rest of its column (2^-24 .. 2^-36 of the column norm)
    names += ["tinysub:24", "tinysub:30", "tinysub:36"]
    # (n+1) x n / n x (n+1): one row (column) a combination of the others plus a 2^-e perturbation, the last one scaled by 0.2
    if m != n:
        names += ["linedep:28", "linedep:35", "linedep:42"]
    # nearly structured inputs at several magnitudes: structured part O(1), everything else scaled by 2^-e
    names += [f"near:{st}:{e}" for st in ("diag", "tridiag", "hess", "triu") for e in (20, 30, 40, 48)]
    if m == n:
        names += [f"sp:{k}" for k in G.SPECIAL_KINDS] + ["hermoff_qdiag", "partherm:i", "partherm:j", "partherm:k", "partherm:jk"]
    if hermitian:
        names = [x for x in names if x not in ("rowgraded", "colgraded", "toeplitz_q", "negzero_col", "nearcol", "depcol1", "hermoff_qdiag", "allneg", "nonpos", "twodeps", "halfdep_top", "halfdep_bot")
                 and not x.startswith("partherm:") and not x.startswith("near:hess") and not x.startswith("near:triu")] + ["congraded"]
        names = [x for x in names if not x.startswith("sp:") or x[3:] in ("exchange", "ones", "hadamard_like", "path_laplacian")]
    return names


# ---- exhaustive small-integer matrices: every m x n matrix over a small alphabet, addressed by its index in base len(alphabet)
# (row-major, most significant digit first).  Exact data make exact ties, exact dependencies and exactly invariant subspaces the rule.
SI_ALPHABETS = {
    "r3": [(-1.0, 0, 0, 0), (0.0, 0, 0, 0), (1.0, 0, 0, 0)],
    "r4": [(-1.0, 0, 0, 0), (0.0, 0, 0, 0), (1.0, 0, 0, 0), (2.0, 0, 0, 0)],
    "q6": [(0.0, 0, 0, 0), (1.0, 0, 0, 0), (-1.0, 0, 0, 0), (0, 1.0, 0, 0), (0, 0, 1.0, 0), (0, 0, 0, 1.0)],
    "q4": [(0.0, 0, 0, 0), (1.0, 0, 0, 0), (0, 1.0, 0, 0), (0, 0, 1.0, 0)],
}


def si_count(alpha, m, n, hermitian=False):
    k = len(SI_ALPHABETS[alpha])
    if hermitian:
        return 3 ** n * k ** (n * (n - 1) // 2)  # diagonal over {-1, 0, 1}, strict upper triangle over the alphabet
    return k ** (m * n)


def si_names(alpha, m, n, hermitian=False, stride=1, offset=0):
    tag = "sih" if hermitian else "si"
    return [f"{tag}:{alpha}:{i}" for i in range(offset, si_count(alpha, m, n, hermitian), stride)]


def si_cells(tier, hermitian=False):
    """-> [(m, n, names)]: the exhaustive small-integer cells of a tier (independent of the seed)."""
    t = tier == "thorough"
    if hermitian:
        return [(2, 2, si_names("q6", 2, 2, True)), (3, 3, si_names("q6", 3, 3, True, 1 if t else 3))]
    out = [(2, 2, si_names("q6", 2, 2)), (3, 3, si_names("r3", 3, 3, False, 1 if t else 4)),
           (2, 3, si_names("q4", 2, 3, False, 1 if t else 4)), (3, 2, si_names("q4", 3, 2, False, 1 if t else 4))]
    if t:
        out.append((3, 3, si_names("r4", 3, 3, False, 16)))
    return out


def si_build(name, m, n):
    tag, alpha, idx = name.split(":")
    vals = SI_ALPHABETS[alpha]
    k = len(vals)
    idx = int(idx)
    A = np.zeros((m, n, 4))
    if tag == "sih":
        assert m == n
        pos = [(i, j) for i in range(n) for j in range(i + 1, n)]
        for (i, j) in reversed(pos):
            idx, d = divmod(idx, k)
            A[i, j] = vals[d]
            A[j, i] = vals[d]
            A[j, i, 1:] *= -1.0
        for i in reversed(range(n)):
            idx, d = divmod(idx, 3)
            A[i, i, 0] = d - 1.0
        return A + 0.0  # no negative zeros
    for t in reversed(range(m * n)):
        idx, d = divmod(idx, k)
        A[t // n, t % n] = vals[d]
    return A


def _hermitize(A):
    A = 0.5 * (A + O.qH(A))
    for i in range(A.shape[0]):
        A[i, i, 1:] = 0.0
    return A


def xf_build(name, m, n, fill, hermitian=False):
    """-> (A float (m,n,4), layout).  Deterministic function of (name, shape, fill stream)."""
    lay = "C"
    base = fill.quat(m, n, bits=4, lo=-24, hi=24)
    for i in range(min(m, n)):
        if not base[i, i].any():
            base[i, i, 0] = 1.0
    if hermitian:
        assert m == n
        base = _hermitize(base)
    if name.startswith("si:") or name.startswith("sih:"):
        return si_build(name, m, n), "C"
    if name.startswith("cm:"):
        mask = sum(1 << "1ijk".index(c) for c in name[3:])
        A = G.apply_component_mask(base, mask)
    elif name.startswith("sp:"):
        A = G.special(name[3:], n)
    elif name.startswith("lay:"):
        A, lay = base, name[4:]
    elif name == "equalmod":  # every entry a signed unit: all moduli exactly equal (pivot / ordering ties everywhere)
        idx = fill.ints((m, n), 0, 7)
        A = np.zeros((m, n, 4))
        for p_ in np.ndindex(m, n):
            A[p_] = G.SIGNED_UNITS[idx[p_]]
        if hermitian:
            A = _hermitize(A + O.qH(A))
    elif name == "constant":  # all entries exactly equal (rank one)
        A = np.zeros((m, n, 4))
        A[:, :] = [1.0, 0.0, 0.0, 0.0] if hermitian else [0.5, -1.0, 0.25, 2.0]
    elif name == "rowgraded":
        A = base * np.array([2.0 ** (-9 * i) for i in range(m)])[:, None, None]
    elif name == "colgraded":
        A = base * np.array([2.0 ** (-9 * j) for j in range(n)])[None, :, None]
    elif name == "congraded":  # D A D with graded D: Hermitian, badly scaled
        d = np.array([2.0 ** (-5 * i) for i in range(n)])
        A = base * d[:, None, None] * d[None, :, None]
    elif name == "circulant_q":
        c = fill.quat(max(m, n), 1, bits=3, lo=-12, hi=12)[:, 0]
        A = np.zeros((m, n, 4))
        for i in range(m):
            for j in range(n):
                A[i, j] = c[(i - j) % max(m, n)]
        if hermitian:
            A = _hermitize(A)
    elif name == "toeplitz_q":
        c = fill.quat(m + n, 1, bits=3, lo=-12, hi=12)[:, 0]
        A = np.zeros((m, n, 4))
        for i in range(m):
            for j in range(n):
                A[i, j] = c[i - j + n - 1]
    elif name == "negzero_col":  # an exactly-zero column whose zeros carry a negative sign bit (column * -0.0 ... or a negated matrix)
        A = base.copy()
        A[:, min(1, n - 1)] = -0.0
    elif name == "negated_checker":
        A = base.copy()
        for i in range(m):
            for j in range(n):
                if (i + j) % 2:
                    A[i, j] = 0.0
        A = -A  # zeros become -0.0
        if hermitian:
            A = _hermitize(A) if False else A  # negation keeps Hermitian symmetry
    elif name == "nearcol":  # every column a right multiple of column 0 plus a 2^-17 relative perturbation: full rank, cond ~ 1e5
        A = base.copy()
        for j in range(1, n):
            q = fill.dyadic((4,), bits=2, lo=-6, hi=6)
            if not q.any():
                q[0] = 1.0
            A[:, j] = O.qmul(A[:, 0], np.broadcast_to(q, (m, 4))) + np.ldexp(base[:, j], -17)
    elif name.startswith("tinysub:"):
        A = base.copy()
        e = int(name.split(":")[1])
        if m >= 2:
            q = np.array([0.75, -0.5, 1.0, 0.25]) if not hermitian else np.array([0.75, -0.5, 1.0, 0.25])
            A[1, 0] = np.ldexp(q, -e)
            if hermitian:
                A[0, 1] = A[1, 0] * np.array([1.0, -1.0, -1.0, -1.0])
    elif name.startswith("linedep:"):
        e = int(name.split(":")[1])
        A = base.copy()
        tall = m > n
        L = A if tall else np.transpose(A, (1, 0, 2)).copy()
        k = L.shape[0]
        if k >= 3:
            comb = np.zeros_like(L[0])
            for t in range(k - 2):
                c = fill.dyadic((4,), bits=1, lo=-2, hi=2)
                if not c.any():
                    c[0] = 1.0
                comb = comb + (O.qmul(np.broadcast_to(c, L[t].shape), L[t]) if tall else O.qmul(L[t], np.broadcast_to(c, L[t].shape)))
            L[k - 2] = comb + np.ldexp(L[k - 2], -e)
        L[k - 1] = 0.2 * L[k - 1]
        A = L if tall else np.transpose(L, (1, 0, 2)).copy()
    elif name == "depcol1":  # column 1 an exact right multiple of column 0 (rank n-1, the dependency sits in the LEADING columns)
        A = base.copy()
        if n >= 2:
            A[:, 1] = O.qmul(A[:, 0], np.broadcast_to(np.array([0.5, -1.0, 0.0, 2.0]), (m, 4)))
    elif name == "allneg":  # every component of every entry strictly negative
        A = -(np.abs(base) + 0.0625)
    elif name == "nonpos":  # no positive component anywhere, some exact zeros
        A = -np.abs(base)
        A[0, 0, 1] = 0.0
        A[m - 1, n - 1] = 0.0
    elif name.startswith("nearunit:"):
        # (sub-)column norms within a few 1e-6 of 1 without being exactly 1: first column below the diagonal, or every column
        A = base.copy()
        which = name.split(":")[1]
        if which == "cols":
            for j in range(n):
                nj = O.fro(A[:, j : j + 1])
                if nj > 0:
                    A[:, j] = A[:, j] / nj * (1.0 + (3e-6 if j % 2 else -4e-6))
        elif m >= 2:
            nj = O.fro(A[1:, 0:1])
            if nj > 0:
                A[1:, 0] = A[1:, 0] / nj * (1.000004 if which == "+" else 0.999997)
        if hermitian:
            A = _hermitize(A)
    elif name == "blocktri2":  # block upper triangular with an exactly zero lower-left block, leading block 2 x 2 (reducible, coupled)
        A = base.copy()
        A[2:, :2] = 0.0
        if hermitian:
            A[:2, 2:] = 0.0
    elif name == "col0_hess":  # first column already in Hessenberg form (zero below the sub-diagonal), the rest dense
        A = base.copy()
        A[2:, 0] = 0.0
        if hermitian:
            A[0, 2:] = 0.0
    elif name.startswith("nearreal"):  # real entries plus vector parts of relative size 2^-e (almost, but not exactly, real)
        e_ = int(name.split(":")[1]) if ":" in name else 30
        A = base.copy()
        A[..., 1:] = np.ldexp(base[..., 1:], -e_)
        if hermitian:
            A = _hermitize(A)
    elif name == "twodeps":  # two separate groups of right-dependent columns: col1 = col0*q, col3 = col2*i (non-real coefficients)
        A = base.copy()
        if n >= 2:
            A[:, 1] = O.qmul(A[:, 0], np.broadcast_to(np.array([0.5, -1.0, 0.0, 2.0]), (m, 4)))
        if n >= 4:
            A[:, 3] = O.qmul(A[:, 2], np.broadcast_to(np.array([0.0, 1.0, 0.0, 0.0]), (m, 4)))
    elif name in ("halfdep_top", "halfdep_bot"):  # full column rank, but column 1 is a right multiple of column 0 within one half of the rows
        A = base.copy()
        if n >= 2 and m >= 2:
            h = m // 2
            rows = slice(0, h) if name == "halfdep_top" else slice(m - h, m)
            A[rows, 1] = O.qmul(A[rows, 0], np.broadcast_to(np.array([0.5, -1.0, 0.0, 2.0]), (A[rows, 0].shape[0], 4)))
    elif name.startswith("zerosum:"):
        # non-zero entries that cancel exactly in the SUM over a region (a structure test written as `region.sum() == 0` sees "empty")
        reg = name.split(":")[1]
        A = base.copy()
        if reg == "imag":  # in every entry the three imaginary components add up to exactly zero
            A[..., 3] = -(A[..., 1] + A[..., 2])
        else:
            sel = {"low2": lambda i, j: i >= j + 2, "low1": lambda i, j: i >= j + 1, "up1": lambda i, j: j >= i + 1, "all": lambda i, j: True}[reg]
            pos = [(i, j) for i in range(m) for j in range(n) if sel(i, j)]
            for t in range(0, len(pos) - 1, 2):
                A[pos[t + 1]] = -A[pos[t]]
            if len(pos) % 2:
                A[pos[-1]] = 0.0
        if hermitian:
            A = _hermitize(A)
    elif name in ("blockdiag1", "blockdiag2"):  # exactly decoupled leading block of size 1 / 2 (reducible input), dense trailing block
        k_ = 1 if name == "blockdiag1" else 2
        A = base.copy()
        A[k_:, :k_] = 0.0
        A[:k_, k_:] = 0.0
    elif name == "arrow":  # non-zero first row, first column and diagonal only
        A = np.zeros_like(base)
        A[0, :] = base[0, :]
        A[:, 0] = base[:, 0]
        for i in range(min(m, n)):
            A[i, i] = base[i, i]
    elif name == "zero_row1":  # an exactly-zero interior row (and, for Hermitian input, the matching column)
        A = base.copy()
        if m >= 2:
            A[1, :] = 0.0
            if hermitian:
                A[:, 1] = 0.0
    elif name.startswith("near:"):
        _, st, e = name.split(":")
        keep = {"diag": lambda i, j: i == j, "tridiag": lambda i, j: abs(i - j) <= 1, "hess": lambda i, j: i <= j + 1, "triu": lambda i, j: i <= j}[st]
        A = base.copy()
        for i in range(m):
            for j in range(n):
                if not keep(i, j):
                    A[i, j] = np.ldexp(A[i, j], -int(e))
        if hermitian:
            A = _hermitize(A)
    elif name.startswith("partherm:"):
        # Hermitian symmetry in the real part and in all imaginary planes EXCEPT the named ones, which are symmetric instead of
        # skew-symmetric: not Hermitian, and a Hermitian test that forgets those planes says it is
        A = _hermitize(base)
        for ch in name.split(":")[1]:
            t = "1ijk".index(ch)
            P_ = base[..., t]
            A[..., t] = 0.5 * (P_ + P_.T)
            if not (A[..., t] - np.diag(np.diag(A[..., t]))).any() and n >= 2:
                A[0, 1, t] = A[1, 0, t] = 1.0
    elif name == "hermoff_qdiag":  # Hermitian off-diagonal part, quaternion (non-real) diagonal: NOT Hermitian, a legal general matrix
        A = _hermitize(base)
        for i in range(n):
            A[i, i] = base[i, i] + np.array([0.0, 0.5, -0.25 * (i + 1), 1.0])
    elif name == "checker":  # exact zeros on a checkerboard
        A = base.copy()
        for i in range(m):
            for j in range(n):
                if (i + j) % 2:
                    A[i, j] = 0.0
    else:
        raise ValueError(name)
    return A, lay


# ------------------------------------------------------------------ option invariance helpers
def quiet_call(fn, *a, **k):
    """call fn with stdout/stderr swallowed (verbose=True paths print); returns (ok, value-or-exception)."""
    import contextlib
    import io

    buf = io.StringIO()
    try:
        with contextlib.redirect_stdout(buf), contextlib.redirect_stderr(buf):
            return True, fn(*a, **k)
    except Exception as e:  # noqa: BLE001
        return False, e


def canon_value(r):
    """canonical, hashable form of a returned value (quaternion arrays -> bytes of the float view, ...)."""
    if isinstance(r, np.ndarray):
        if r.dtype == np.quaternion:
            return ("q", r.shape, G.from_quat(r).tobytes())
        if r.dtype == object:
            return ("o", r.shape, tuple(canon_value(x) for x in r.ravel()))
        return ("a", r.shape, str(r.dtype), np.ascontiguousarray(r).tobytes())
    if type(r).__name__ == "SparseQuaternionMatrix":
        return ("sq", tuple(r.shape), sparse_to_arr(r).tobytes())
    if isinstance(r, (tuple, list)):
        return (type(r).__name__, tuple(canon_value(x) for x in r))
    if isinstance(r, dict):
        return ("d", tuple(sorted((str(k), canon_value(v)) for k, v in r.items() if "time" not in str(k).lower())))
    if isinstance(r, (float, np.floating)):
        return ("f", float(r).hex() if r == r else "nan")
    if isinstance(r, (complex, np.complexfloating)):
        return ("c", complex(r).real.hex(), complex(r).imag.hex())
    if isinstance(r, (int, np.integer, bool, np.bool_, str, type(None))):
        return ("s", r if not isinstance(r, (np.integer, np.bool_)) else r.item())
    if type(r).__name__ == "quaternion":
        return ("qs", r.w.hex(), r.x.hex(), r.y.hex(), r.z.hex())
    return ("r", repr(r))


# ------------------------------------------------------------------ canonical internal probes
def canonical_probes(N):
    """Quaternion vectors (N,1,4) that a routine would obtain from a *fixed* local random generator (the usual spellings), in both ways
    of reading 4N real numbers as N quaternions.  Inputs built to be orthogonal to / to contain such a vector expose a hidden
    fixed probe or fixed start vector, which a deterministic routine must not depend on."""
    out = []
    for s_ in (0, 1, 42, 1234, 12345):
        g = np.random.default_rng(s_).standard_normal(4 * N)
        out.append((f"default_rng({s_})/interleaved", g.reshape(N, 1, 4)))
        out.append((f"default_rng({s_})/blocked", g.reshape(4, N).T.reshape(N, 1, 4).copy()))
    for s_ in (0, 1, 42):
        g = np.random.RandomState(s_).randn(4 * N)
        out.append((f"RandomState({s_})/interleaved", g.reshape(N, 1, 4)))
        out.append((f"RandomState({s_})/blocked", g.reshape(4, N).T.reshape(N, 1, 4).copy()))
    return out


def orthonormal_completion(cols):
    """Gram-Schmidt (twice) of quaternion columns (N,k,4) in the oracle's arithmetic -> orthonormal columns spanning the same flag."""
    N, k, _ = cols.shape
    Q = np.zeros((N, k, 4))
    for j in range(k):
        v = cols[:, j : j + 1].copy()
        for _ in range(2):
            for i in range(j):
                qi = Q[:, i : i + 1]
                v = v - O.qmatmul(qi, O.qmatmul(O.qH(qi), v))
        Q[:, j : j + 1] = v / O.fro(v)
    return Q


def hermitian_exact_zero(n, where, fill):
    """Exactly Hermitian n x n matrix with nullity 1 whose zero eigenvalue is EXACT: a positive definite Gram matrix with a dead first /
    last channel (zero row and column), or diag(n-1, ..., 1, 0)."""
    if where == "diag":
        A = np.zeros((n, n, 4))
        for i in range(n):
            A[i, i, 0] = float(n - 1 - i)
        return A
    B = fill.quat(n, n, bits=3, lo=-8, hi=8)
    A = O.qmatmul(B, O.qH(B)) / 16.0 + O.qeye(n)
    A = 0.5 * (A + O.qH(A))
    for i in range(n):
        A[i, i, 1:] = 0.0
    z = n - 1 if where == "last" else 0
    A[z, :] = 0.0
    A[:, z] = 0.0
    return A
