"""Helpers shared by the checks (conversion between oracle arrays and library objects)."""
from __future__ import annotations

import numpy as np
from scipy import sparse as sp

from qmc import gen as G
from qmc import oracle as O


def hash_tag(tag: str) -> int:
    h = 0
    for ch in tag:
        h = (h * 131 + ord(ch)) % (1 << 30)
    return h


def to_sparse(lib, A):
    A = np.asarray(A, float)
    m, n, _ = A.shape
    return lib.utils.SparseQuaternionMatrix(
        sp.csr_matrix(A[..., 0]), sp.csr_matrix(A[..., 1]), sp.csr_matrix(A[..., 2]), sp.csr_matrix(A[..., 3]), (m, n)
    )


def sparse_to_arr(S):
    return np.stack([S.real.toarray(), S.i.toarray(), S.j.toarray(), S.k.toarray()], axis=-1)


def result_to_arr(X):
    """library product result (dense quaternion array or SparseQuaternionMatrix) -> float array."""
    if type(X).__name__ == "SparseQuaternionMatrix":
        return sparse_to_arr(X)
    return G.from_quat(X)


def comps(A):
    A = np.asarray(A, float)
    return [np.ascontiguousarray(A[..., t]) for t in range(4)]


def exact_scaled(Ai, e):
    """integer array * 2^e as float (exact when representable)."""
    return np.ldexp(np.asarray(Ai, dtype=object).astype(float), e)


def relayout(Aq, layout):
    """Same logical quaternion array in a different memory layout: 'C' (as is), 'F' (Fortran order),
    'view' (non-contiguous strided view into a larger buffer), 'T' (transposed view of the transposed data)."""
    if layout == "C":
        return Aq
    if layout == "F":
        return np.asfortranarray(Aq)
    if layout == "T":
        return np.ascontiguousarray(Aq.T).T
    if layout == "view":
        big = np.zeros(tuple(2 * d + 1 for d in Aq.shape), dtype=Aq.dtype)
        sl = tuple(slice(1, None, 2) for _ in Aq.shape)
        big[sl] = Aq
        return big[sl]
    raise ValueError(layout)
