"""C07 — LU with partial pivoting in both output modes: all m! interchange sequences.

Model M.perm: for a placement sigma (row r of A holds row sigma(r) of L0*U0) the pivot
search has a unique maximal row at every step (all multipliers have modulus < 1), so the
swap sequence, IP, and the factors are determined; all letters are dyadic, so the whole
elimination is exact in binary64 and (L, U, P) can be predicted bit for bit.
The *oracle* is the property's own clauses (P permutation, P A = L U / A = L U, L unit
lower with |l_ij| <= 1, U upper, loud when singular, input untouched); agreement with the
model's predicted factors is the conformance measure (traces_validated_against_impl).
"""
from __future__ import annotations

import itertools

import math

import numpy as np

from checks.common import relayout, xf_build, xf_names, si_cells
from qmc import gen as G
from qmc import oracle as O
from qmc.loader import load
from qmc.run import call, digest, fail

ID = "C07"
LEVEL = "model_checking"
RULE = (
    "cases = shape x placement permutation sigma (all m!) x multiplier letters x output mode, "
    "plus singular / tie / generic cells; non-trivial = input has a non-zero entry; distinct = "
    "sha1 of (input bytes, mode)"
)
BOUNDS = {
    "quick": "m<=4 all 33 permutations (+ rank profiles: every (independent rows, pivot columns) pattern for m,n<=4; larger generic shapes 65x3, 70x4, 130x2, 3x70, 40x40), n in {1,m-1,m,m+1}, 3 letter kinds, 2 modes; singular cells m,n<=4; ties m<=3; generic m,n<=5; exhaustive small-integer cells: all 2x2 over {0,1,-1,i,j,k}, 3x3 over {-1,0,1} (every 4th), 2x3/3x2 over {0,1,i,j} (every 4th); l1/l2 pivot candidates: single-component vs k-component entries (k=2,3,4) x 4 components x 3 modulus ratios x 2 orders x pivot column 0..2",
    "thorough": "m<=7 all 5913 permutations, n in {1,m-1,m,m+1,m+2}, 4 letter kinds, 2 modes; singular cells m,n<=5; ties m<=3; generic m,n<=6 x 4 fill rows; exhaustive small-integer cells in full (2x2 over {0,1,-1,i,j,k}, 3x3 over {-1,0,1}, 2x3/3x2 over {0,1,i,j}) and 3x3 over {-1,0,1,2} (every 16th)",
}
THOROUGH_STREAMS = 3
WALL_BUDGET = {"quick": 240, "thorough": 1800}
ASSUMPTIONS = [
    "numpy-quaternion division a/b = a*conj(b)/|b|^2 is exact on the dyadic letters used (verified by the exact clause itself)",
    "sizes above the stated bound and entries outside the enumerated letters are not covered",
]


# ------------------------------------------------------------------ model
def letters(kind, fill):
    """returns function (i,j)->multiplier quaternion with modulus in (0,1)."""
    mags = [0.5, -0.5, 0.25, -0.25]

    def real(i, j):
        return np.array([mags[(i * 3 + j) % 4], 0, 0, 0], float)

    def q8(i, j):
        u = G.SIGNED_UNITS[(i * 5 + j * 3 + 1) % 8].astype(float)
        return u * (0.5 if (i + j) % 2 == 0 else 0.25)

    def mixed(i, j):
        # two-component dyadic quaternion, modulus sqrt(1/4+1/16) < 1
        v = np.zeros(4)
        v[(i + j) % 4] = 0.5 if (i % 2 == 0) else -0.5
        v[(i + 2 * j + 1) % 4 if (i + 2 * j + 1) % 4 != (i + j) % 4 else (i + j + 2) % 4] = 0.25
        return v

    def filld(i, j):
        v = fill.dyadic((4,), bits=3, lo=-3, hi=3)  # components in [-3/8, 3/8] -> modulus <= 0.75
        if not v.any():
            v[0] = 0.25
        return v

    return {"real": real, "q8": q8, "mixed": mixed, "fill": filld}[kind]


def build_LU0(m, n, kind, seed, tag):
    fill = G.Fill(seed, stream=hash_tag(tag))
    N = min(m, n)
    mult = letters(kind, fill)
    L0 = np.zeros((m, N, 4))
    for i in range(m):
        for j in range(N):
            if i == j:
                L0[i, j, 0] = 1.0
            elif i > j:
                L0[i, j] = mult(i, j)
    U0 = np.zeros((N, n, 4))
    for i in range(N):
        for j in range(i, n):
            if i == j:
                if kind == "real":
                    U0[i, j, 0] = [2.0, -1.0, 0.5, 3.0, -4.0][(i) % 5]
                else:
                    u = G.SIGNED_UNITS[(3 * i + 1) % 8].astype(float)
                    U0[i, j] = u * [1.0, 2.0, 0.5, 4.0, 1.0][i % 5]
                    if kind in ("mixed", "fill"):
                        ax = int(np.flatnonzero(u)[0])
                        U0[i, j, (ax + 1) % 4] += 1.0  # two-component pivot (never cancels the unit), |.|^2 not a power of 2
            else:
                U0[i, j] = fill.dyadic((4,), bits=2, lo=-8, hi=8)
    return L0, U0


def hash_tag(tag):
    h = 0
    for ch in tag:
        h = (h * 131 + ord(ch)) % (1 << 30)
    return h


def simulate(sigma):
    """Model of the pivot loop: returns (IP, order) after all forced swaps."""
    m = len(sigma)
    order = list(sigma)  # order[pos] = L0-row currently at pos
    IP = list(range(m))
    swaps = []
    return IP, order, swaps


def model_run(sigma, m, N):
    order = list(sigma)
    IP = list(range(m))
    swaps = []
    for j in range(N):
        l = order.index(j)  # the unique maximal row
        assert l >= j
        if l != j:
            order[j], order[l] = order[l], order[j]
            IP[j], IP[l] = IP[l], IP[j]
        swaps.append(l)
        if j == m - 1:
            break
    return IP, order, tuple(swaps)


# ------------------------------------------------------------------ case space

def _dedupe(cases_):
    """the same cell can be listed by two enumerations (e.g. a tall shape that the thorough bound also reaches): keep the first."""
    seen, out_ = set(), []
    for c in cases_:
        if c["key"] not in seen:
            seen.add(c["key"])
            out_.append(c)
    return out_


def cases(tier, seed):
    out = []
    M = 4 if tier == "quick" else 7
    kinds = ["real", "q8", "mixed"] + (["fill"] if tier == "thorough" else [])
    for m in range(1, M + 1):
        ns = sorted({x for x in (1, m - 1, m, m + 1) + ((m + 2,) if tier == "thorough" else ()) if x >= 1})
        for sigma in itertools.permutations(range(m)):
            for n in ns:
                for kind in kinds:
                    for mode in ("LU", "LUP"):
                        out.append(
                            {
                                "key": f"forced/m={m}/n={n}/sigma={''.join(map(str, sigma))}/{kind}/{mode}",
                                "cls": "forced",
                                "m": m,
                                "n": n,
                                "sigma": list(sigma),
                                "kind": kind,
                                "mode": mode,
                            }
                        )
                        if kind == "q8" and n == m and m <= 5:
                            for e in (-40, 40):  # whole-matrix power-of-two scaling: elimination stays exact
                                out.append({"key": f"forced/m={m}/n={n}/sigma={''.join(map(str, sigma))}/{kind}/{mode}/scale=2^{e}", "cls": "forced", "m": m, "n": n,
                                            "sigma": list(sigma), "kind": kind, "mode": mode, "scale": e})
    S = 4 if tier == "quick" else 5
    for m in range(1, S + 1):
        for n in range(1, S + 1):
            for mode in ("LU", "LUP"):
                out.append({"key": f"sing/zero/m={m}/n={n}/{mode}", "cls": "sing", "sub": "zero", "m": m, "n": n, "c": 0, "mode": mode})
                for c in range(n):
                    out.append({"key": f"sing/zerocol/m={m}/n={n}/c={c}/{mode}", "cls": "sing", "sub": "zerocol", "m": m, "n": n, "c": c, "mode": mode})
                    if c >= 1:
                        out.append({"key": f"sing/depcol/m={m}/n={n}/c={c}/{mode}", "cls": "sing", "sub": "depcol", "m": m, "n": n, "c": c, "mode": mode})
    for m in (2, 3):
        for n in (m, m + 1):
            for t in range(6):
                for mode in ("LU", "LUP"):
                    out.append({"key": f"tie/m={m}/n={n}/t={t}/{mode}", "cls": "tie", "m": m, "n": n, "t": t, "mode": mode})
    # rank profiles: every choice of independent rows I and pivot columns J (|I| = |J| = r < min or = min):
    # dependent rows are left-combinations of the independent rows above them (zero rows if none)
    RP = 4 if tier == "quick" else 5
    for m in range(1, RP + 1):
        for n in range(1, RP + 1):
            for r in range(1, min(m, n) + 1):
                for I in itertools.combinations(range(m), r):
                    for J in itertools.combinations(range(n), r):
                        if r == min(m, n) and I == tuple(range(r)) and J == tuple(range(r)):
                            continue
                        for mode in ("LU", "LUP"):
                            out.append({"key": f"rankprofile/m={m}/n={n}/I={''.join(map(str, I))}/J={''.join(map(str, J))}/{mode}", "cls": "rankprofile", "m": m, "n": n,
                                        "I": list(I), "J": list(J), "mode": mode})
    # pivot candidates whose 1-norm / max-norm ordering differs from their modulus ordering: one entry concentrated in a single component
    # (modulus r) against an entry spread over k = 2, 3, 4 equal components with a slightly SMALLER modulus (but up to twice the 1-norm and
    # a smaller max-component); every component position, both row orders, pivot column 0..2 (behind a decoupled leading block)
    for k in (2, 3, 4):
        for comp in range(4):
            for ratio_i, ratio in enumerate((0.999, 0.97, 0.9)):
                for order in (0, 1):
                    for pc in (0, 1, 2):
                        for extra in (0, 2):
                            for mode in ("LU", "LUP"):
                                out.append({"key": f"l1l2/k={k}/comp={comp}/r={ratio_i}/o={order}/pc={pc}/x={extra}/{mode}", "cls": "l1l2", "m": pc + 2 + extra, "n": pc + 2, "k": k, "comp": comp,
                                            "ratio": ratio, "order": order, "pc": pc, "mode": mode})
    # a few larger sizes (blocked / panelled code paths): enumerated list, generic entries
    for (m, n) in ((65, 3), (70, 4), (130, 2), (3, 70), (40, 40)):
        for mode in ("LU", "LUP"):
            out.append({"key": f"generic-large/m={m}/n={n}/{mode}", "cls": "generic", "m": m, "n": n, "row": 0, "mode": mode})
    # unusual-but-legal variants (component supports, modulus ties everywhere, gradings, circulant/Toeplitz, special matrices, layouts)
    for m in range(1, 5):
        for n in range(1, 5):
            for nm in xf_names(m, n):
                for mode in ("LU", "LUP"):
                    out.append({"key": f"xf/m={m}/n={n}/{nm}/{mode}", "cls": "xf", "m": m, "n": n, "xf": nm, "mode": mode})
    # exhaustive small-integer matrices (every matrix over a small alphabet: exact ties, exact dependencies, exactly invariant subspaces)
    for m, n, names in si_cells(tier):
        for nm in names:
            for mode in ("LU", "LUP"):
                out.append({"key": f"si/m={m}/n={n}/{nm}/{mode}", "cls": "xf", "m": m, "n": n, "xf": nm, "mode": mode, "_fixed": True})
    GM = 5 if tier == "quick" else 6
    rows = 1 if tier == "quick" else 4
    for m in range(1, GM + 1):
        for n in range(1, GM + 1):
            for r in range(rows):
                for mode in ("LU", "LUP"):
                    out.append({"key": f"generic/m={m}/n={n}/row={r}/{mode}", "cls": "generic", "m": m, "n": n, "row": r, "mode": mode})
    return _dedupe(out)


# ------------------------------------------------------------------ oracle
def structure_fails(A, res, mode, tags, exact_expected=None):
    """Property clauses on the returned factors.  A is the float (m,n,4) input."""
    fails = []
    m, n, _ = A.shape
    N = min(m, n)
    nA = max(O.fro(A), 1e-300)
    bud = O.budget(nA, dims=max(m, n) ** 2)
    if mode == "LUP":
        if not (isinstance(res, tuple) and len(res) == 3):
            return [fail("return_arity", f"expected 3 outputs, got {type(res)}", **tags)]
        L, U, P = (G.from_quat(x) for x in res)
    else:
        if not (isinstance(res, tuple) and len(res) == 2):
            return [fail("return_arity", f"expected 2 outputs, got {type(res)}", **tags)]
        L, U = (G.from_quat(x) for x in res)
        P = None
    if L.shape != (m, N, 4) or U.shape != (N, n, 4):
        fails.append(fail("shapes", f"L{L.shape} U{U.shape} for A{A.shape}", **tags))
        return fails
    if not (O.is_finite(L) and O.is_finite(U)):
        fails.append(fail("finite", "non-finite factor", **tags))
        return fails
    LU = O.qmatmul(L, U)
    # U upper trapezoidal
    low = max((O.qabs(U[i, j]) for i in range(N) for j in range(min(i, n))), default=0.0)
    if low > bud:
        fails.append(fail("U_upper", f"max below-diagonal |U|={low:.3e}", **tags))
    if mode == "LUP":
        Pr = P[..., 0]
        okP = (
            P.shape == (m, m, 4)
            and not P[..., 1:].any()
            and set(np.unique(Pr)) <= {0.0, 1.0}
            and (Pr.sum(0) == 1).all()
            and (Pr.sum(1) == 1).all()
        )
        if not okP:
            fails.append(fail("P_permutation", "P is not a permutation matrix", **tags))
            return fails
        PA = O.qmatmul(P, A)
        err = O.fro(PA - LU)
        if err > bud:
            fails.append(fail("PA=LU", f"||PA-LU||_F={err:.3e} budget={bud:.1e}", **tags))
        Lc = L
    else:
        err = O.fro(A - LU)
        if err > bud:
            fails.append(fail("A=LU", f"||A-LU||_F={err:.3e} budget={bud:.1e}", **tags))
        # L must be a row permutation of a unit lower-trapezoidal matrix
        Lc = None
        one = np.array([1.0, 0, 0, 0])
        cands = [[r for r in range(m) if (L[r, i] == one).all() and not L[r, i + 1 :].any()] for i in range(N)]

        def dfs(i, used):
            if i == N:
                return []
            for r in cands[i]:
                if r not in used:
                    rest = dfs(i + 1, used | {r})
                    if rest is not None:
                        return [r] + rest
            return None

        top = dfs(0, frozenset())
        if top is not None:
            order = top + [r for r in range(m) if r not in top]
            Lc = L[order]
        if Lc is None:
            fails.append(fail("L_row_permuted_unit_lower", "no row permutation of L is unit lower-trapezoidal", **tags))
    if Lc is not None:
        for i in range(min(m, N)):
            if not (Lc[i, i] == np.array([1.0, 0, 0, 0])).all() or Lc[i, i + 1 :].any():
                fails.append(fail("L_unit_lower", f"row {i} of L is not unit lower", **tags))
                break
        mx = float(np.max(O.qabs(Lc))) if Lc.size else 0.0
        if mx > 1.0 + 1e-12:
            fails.append(fail("multiplier<=1", f"max |l_ij| = {mx:.6f}", **tags))
    return fails


def run_case(case, seed):
    lib = load()
    lu = lib.LU.quaternion_lu
    cls, m, n, mode = case["cls"], case["m"], case["n"], case["mode"]
    N = min(m, n)
    tags = {"cls": cls, "mode": mode, "m": m, "n": n}
    expected = None
    path = None
    if cls == "forced":
        sigma = case["sigma"]
        L0, U0 = build_LU0(m, n, case["kind"], seed, "/".join(case["key"].split("/")[:5]))
        if case.get("scale"):
            U0 = np.ldexp(U0, case["scale"])
        LU0 = O.qmatmul(L0, U0)
        A = LU0[list(sigma)]  # row r of A holds row sigma(r) of L0 U0
        IP, order, swaps = model_run(sigma, m, N)
        Lexp = L0[order]
        Pexp = np.zeros((m, m, 4))
        for i in range(m):
            Pexp[i, IP[i], 0] = 1.0
        expected = (L0[list(sigma)], U0) if mode == "LU" else (Lexp, U0, Pexp)
        path = "swaps=" + ",".join(map(str, swaps))
        tags["involution"] = G.perm_is_involution(tuple(sigma))
        tags["kind"] = case["kind"]
    elif cls == "sing":
        fill = G.Fill(seed, stream=hash_tag(case["key"]))
        A = fill.quat(m, n, bits=2, lo=-8, hi=8)
        c = case["c"]
        if case["sub"] == "zero":
            A[:] = 0.0
        elif case["sub"] == "zerocol":
            A[:, c] = 0.0
        else:  # column c is a right-combination of the previous columns -> zero after c steps
            coef = fill.dyadic((c, 1, 4), bits=1, lo=-2, hi=2)
            A[:, c : c + 1] = O.qmatmul(A[:, :c], coef)
    elif cls == "rankprofile":
        fill = G.Fill(seed, stream=hash_tag(case["key"].rsplit("/", 1)[0]))
        I, J = case["I"], case["J"]
        r = len(I)
        R_ = np.zeros((r, n, 4))
        for t in range(r):
            R_[t, J[t]] = G.SIGNED_UNITS[(2 * t + 1) % 8].astype(float) * (1.0 + t)
            for c in range(J[t] + 1, n):
                R_[t, c] = fill.dyadic((4,), bits=1, lo=-3, hi=3)
        A = np.zeros((m, n, 4))
        for t, i in enumerate(I):
            A[i] = R_[t]
        for i in range(m):
            if i in I:
                continue
            above = [t for t, ii in enumerate(I) if ii < i]
            for t in above:
                coef = fill.dyadic((4,), bits=1, lo=-2, hi=2)
                if not coef.any():
                    coef[0] = 0.5
                A[i] = A[i] + O.qmul(np.broadcast_to(coef, (n, 4)), R_[t])
    elif cls == "xf":
        fill = G.Fill(seed, stream=hash_tag(case["key"].rsplit("/", 1)[0]))
        A, lay = xf_build(case["xf"], m, n, fill)
    elif cls == "l1l2":
        fill = G.Fill(seed, stream=hash_tag(case["key"].rsplit("/", 1)[0]))
        A = fill.quat(m, n, bits=3, lo=-4, hi=4) * 0.125  # |components| <= 0.5: never a pivot candidate
        pc, k = case["pc"], case["k"]
        for t in range(pc):  # decoupled leading block 4 I
            A[t, :] = 0.0
            A[:, t] = 0.0
            A[t, t, 0] = 4.0
        single = np.zeros(4)
        single[case["comp"]] = 2.0 * (-1.0 if case["comp"] % 2 else 1.0)
        spread = np.zeros(4)
        sgn = [1.0, -1.0, 1.0, 1.0]
        pos = [(case["comp"] + 1 + t) % 4 for t in range(k)] if k < 4 else [0, 1, 2, 3]
        for t in pos:
            spread[t] = sgn[t] * 2.0 * case["ratio"] / math.sqrt(k)
        r1, r2 = (pc, m - 1) if case["order"] == 0 else (m - 1, pc)
        A[r1, pc] = single
        A[r2, pc] = spread
    elif cls == "tie":
        fill = G.Fill(seed, stream=hash_tag(case["key"]))
        A = fill.quat(m, n, bits=2, lo=-8, hi=8)
        t = case["t"]
        # two rows of equal maximal modulus in column 0 (different units), optionally column 1 too
        u1 = G.SIGNED_UNITS[t % 8].astype(float) * 4.0
        u2 = G.SIGNED_UNITS[(t + 3) % 8].astype(float) * 4.0
        A[0, 0] = u1 if t % 2 == 0 else A[0, 0] * 0.125
        A[1, 0] = u2
        A[m - 1, 0] = u1
    else:
        fill = G.Fill(seed + 1000 * case["row"], stream=hash_tag(case["key"]))
        A = fill.quat(m, n, bits=4, lo=-40, hi=40)
    Aq = G.to_quat(A)
    if cls == "xf":
        Aq = relayout(Aq, lay)
    before = Aq.tobytes()
    ok, res = call(lu, Aq, return_p=(mode == "LUP"))
    fails = []
    if Aq.tobytes() != before:
        fails.append(fail("input_unchanged", "quaternion_lu modified its argument", **tags))
    traces = 0
    if not ok:
        if cls in ("sing", "rankprofile"):
            if not isinstance(res, ValueError):
                # any loud failure is accepted by the property; record the type
                pass
            path = "raised:" + type(res).__name__
        elif cls == "xf" and any(O.rank(A[:, : j + 1]) < j + 1 for j in range(N)):
            path = "raised:" + type(res).__name__  # some leading column block is rank deficient: no LU with row pivoting exists
        else:
            fails.append(fail("unexpected_exception", f"{type(res).__name__}: {res}", **tags))
    else:
        fails += structure_fails(A, res, mode, tags)
        if cls in ("sing", "rankprofile"):
            path = "returned"
        if expected is not None and not fails:
            got = tuple(G.from_quat(x) for x in res)
            same = len(got) == len(expected) and all(
                g.shape == e.shape and (g == e).all() for g, e in zip(got, expected)
            )
            if same:
                traces = 1
            else:
                path = (path or "") + "|model-diverged"
    return {
        "key": case["key"],
        "fails": fails,
        "nontrivial": bool(A.any()),
        "digest": digest(A, mode),
        "states": [path or digest(A, mode)],
        "transitions": (len(path.split(",")) if (path and path.startswith("swaps=")) else 1),
        "traces": traces,
        "path": path if cls in ("forced", "sing", "rankprofile") else (f"xf:{path}" if cls == "xf" and path else None),
        "sample": {"A": A, "mode": mode, "returned": ok},
    }


def summarize(results):
    forced = [r for r in results if r["key"].startswith("forced/")]
    diverged = [r["key"] for r in forced if r.get("path") and "model-diverged" in r["path"]]
    seqs = {}
    for r in forced:
        p = r.get("path") or ""
        m = r["key"].split("/")[1]
        seqs.setdefault(m, set()).add(p.split("|")[0])
    return {
        "interchange_sequences_reached": {k: len(v) for k, v in seqs.items()},
        "model_diverged_cases": diverged[:10],
        "model_diverged": len(diverged),
    }
