"""C12 — randomized Q-SVDs: orthonormal factors, interlacing values, exact on low rank.

The global random generator is the only scheduler; seeds are enumerated.
"""
from __future__ import annotations

import itertools

import numpy as np

from checks import specgen as SG
from checks.common import hash_tag, relayout, xf_build, xf_names, orthonormal_completion
from qmc import gen as G
from qmc import oracle as O
from qmc.loader import load
from qmc.run import call, digest, fail

ID = "C12"
LEVEL = "model_checking"
RULE = (
    "cases = shape x input rank x target rank R x oversample x (n_iter | n_passes) x entry point; inside each case the global seeds 0..S-1 are enumerated "
    "(one evaluation per seed); non-trivial = rank >= 1; distinct = (case key, seed)"
)
BOUNDS = {
    "quick": "m,n in {2..4}, input rank in {1, R, min}, R=1..min, oversample {0,1,2,5,10}, rand_qsvd n_iter 0..3, pass_eff_qsvd n_passes 2..5, seeds 0..3",
    "thorough": "m,n in {2..6}, all input ranks, seeds 0..15",
}
THOROUGH_STREAMS = 3
WALL_BUDGET = {"quick": 600, "thorough": 3400}
ASSUMPTIONS = ["inputs have prescribed, well separated singular values {4,2,1,1/2,1/4}; sigma_i(A) from the generator and cross-checked with the complex-adjoint oracle"]
VALS = [4.0, 2.0, 1.0, 0.5, 0.25, 0.125]



def _dedupe(cases_):
    """the same cell can be listed by two enumerations (e.g. a tall shape that the thorough bound also reaches): keep the first."""
    seen, out_ = set(), []
    for c in cases_:
        if c["key"] not in seen:
            seen.add(c["key"])
            out_.append(c)
    return out_


def cases(tier, seed):
    S = 4 if tier == "quick" else 6
    out = []
    for m, n in itertools.product(range(2, S + 1), repeat=2):
        p = min(m, n)
        for R in range(1, p + 1):
            ranks = sorted({1, R, p}) if tier == "quick" else list(range(1, p + 1))
            for r in ranks:
                for P in (0, 1, 2, 5, 10):
                    for it in range(4):
                        out.append({"key": f"rand/{m}x{n}/r={r}/R={R}/P={P}/it={it}", "fn": "rand_qsvd", "m": m, "n": n, "r": r, "R": R, "P": P, "arg": it})
                    for v in range(2, 6):
                        out.append({"key": f"passeff/{m}x{n}/r={r}/R={R}/P={P}/v={v}", "fn": "pass_eff_qsvd", "m": m, "n": n, "r": r, "R": R, "P": P, "arg": v})
    for c in out:
        c["S"] = 4 if tier == "quick" else 16
    # component-support masks (entries in span of a subset of {1,i,j,k}), full rank
    for m, n in ((3, 3), (4, 3), (3, 4)):
        for mask in G.COMPONENT_MASKS:
            for fn, arg in (("rand_qsvd", 1), ("pass_eff_qsvd", 2)):
                out.append({"key": f"mask/{fn}/{m}x{n}/{G.mask_name(mask)}", "fn": fn, "m": m, "n": n, "r": 3, "R": 3, "P": 1, "arg": arg, "mask": mask, "S": 2})
    # unusual-but-legal variants (leading column dependency, near dependency, ties, gradings, special matrices, layouts, ...); rank from the oracle
    for m, n in ((3, 3), (4, 3), (3, 4), (4, 4)):
        for nm in xf_names(m, n):
            for fn, args in (("rand_qsvd", (0, 1)), ("pass_eff_qsvd", (2, 3))):
                for arg in args:
                    for R, P in ((1, 0), (2, 1), (2, max(m, n)), (min(m, n), 0), (min(m, n), 2)):
                        out.append({"key": f"xf/{fn}/{m}x{n}/{nm}/R={R}/P={P}/arg={arg}", "fn": fn, "m": m, "n": n, "r": 0, "R": R, "P": P, "arg": arg, "xf": nm, "S": 2})
    # ill-conditioned full-rank inputs: sigma = (4, 2, 1, 2^-36): the smallest direction must survive every internal orthonormalisation
    for m, n in ((4, 4), (5, 4), (4, 5), (6, 4)):
        for fn, args in (("rand_qsvd", (0, 1, 2)), ("pass_eff_qsvd", (2, 3))):
            for arg in args:
                for P in (0, 1, 4):
                    out.append({"key": f"graded/{fn}/{m}x{n}/P={P}/arg={arg}", "fn": fn, "m": m, "n": n, "r": 4, "R": 4, "P": P, "arg": arg, "graded": True, "S": 2})
    # close-but-distinct singular values and values just above float32 / float16 rounding midpoints (relative to sigma_1), rank(A) = R
    SPECIAL_SPECTRA = {
        "close3": [1.0, 1.0 - 3e-6, 0.5], "close4": [2.0, 2.0 - 8e-6, 2.0 - 1.6e-5, 1.0], "close2p20": [1.0, 1.0 - 2.0 ** -20, 1.0 - 2.0 ** -19, 0.25],
        "f32mid": [1.0, 0.75 + 2.0 ** -25, 0.5 + 2.0 ** -25, 0.3125 + 2.0 ** -26], "f16mid": [1.0, 0.75 + 2.0 ** -12, 0.5 + 2.0 ** -12, 0.3125 + 2.0 ** -13],
        "f32mid_below": [1.0, 0.75 + 2.0 ** -25 - 2.0 ** -52, 0.5 + 2.0 ** -25 - 2.0 ** -53, 0.3125 + 2.0 ** -26 + 2.0 ** -54],
    }
    for sname, sv_ in SPECIAL_SPECTRA.items():
        p_ = len(sv_)
        for (m, n) in ((p_ + 2, p_ + 1), (p_ + 1, p_ + 3), (p_ + 4, p_ + 4)):
            for fn, args in (("rand_qsvd", (0, 1, 2)), ("pass_eff_qsvd", (2, 3, 4))):
                for arg in args:
                    for P in (0, 2, 5):
                        out.append({"key": f"spectrum/{sname}/{fn}/{m}x{n}/P={P}/arg={arg}", "fn": fn, "m": m, "n": n, "r": p_, "R": p_, "P": P, "arg": arg, "vals": sv_, "S": 3})
    # the sketch is the scheduler, and the harness owns it: for a given global seed the first Gaussian sketch column o_0 is known, so the
    # input can be built with A o_0 = 0 exactly-to-rounding (rank(A) = R, oversample >= 1: the remaining columns still span the range)
    for (m, n, R) in ((6, 5, 2), (5, 7, 3), (8, 6, 4), (6, 9, 3)):
        for fn, args in (("rand_qsvd", (0, 1)), ("pass_eff_qsvd", (2, 3))):
            for arg in args:
                for P in (1, 2, 4):
                    out.append({"key": f"advsketch/{fn}/{m}x{n}/R={R}/P={P}/arg={arg}", "fn": fn, "m": m, "n": n, "r": R, "R": R, "P": P, "arg": arg, "adv": True, "S": 3})
    # whole-matrix scalings (thresholds inside the algorithms must be relative)
    for m, n in ((3, 3), (4, 3), (3, 4)):
        for e in (-50, 40):
            for fn, arg in (("rand_qsvd", 1), ("pass_eff_qsvd", 3)):
                out.append({"key": f"scaled/{fn}/{m}x{n}/2^{e}", "fn": fn, "m": m, "n": n, "r": 3, "R": 2, "P": 1, "arg": arg, "scale": e, "S": 4})
    return _dedupe(out)


def run_adv(case, seed):
    lib = load()
    m, n, R, P = case["m"], case["n"], case["R"], case["P"]
    f = getattr(lib.qsvd, case["fn"])
    fails, evals, ok_runs = [], 0, 0
    for sd in range(case.get("S", 3)):
        np.random.seed(sd)
        o0 = np.random.randn(n, R + P)[:, 0]  # the first column of the sketch this seed will deliver (both routines draw randn(n, R+P) first)
        fill = G.Fill(seed, stream=hash_tag(f"adv/{m}x{n}/{R}/{sd}"))
        g0 = np.zeros((n, 1, 4))
        g0[:, 0, 0] = o0
        Wfull = orthonormal_completion(np.concatenate([g0, fill.quat(n, R, bits=4, lo=-24, hi=24)], axis=1))
        W = Wfull[:, 1 : R + 1]  # orthonormal, orthogonal to o_0
        Bm = orthonormal_completion(fill.quat(m, R, bits=4, lo=-24, hi=24))
        sig = np.array([4.0, 2.0, 1.0, 0.5][:R])
        A = O.qmatmul(O.qmatmul(Bm, G.diag_real(sig.tolist(), R, R)), O.qH(W))
        nA = O.fro(A)
        tags = {"fn": case["fn"], "m": m, "n": n, "R": R, "P": P, "arg": case["arg"], "seed": sd, "r_lt_R": False, "repeated": False, "illcond": False}
        np.random.seed(sd)
        ok, res = call(f, G.to_quat(A), R, P, case["arg"])
        evals += 1
        if not ok:
            fails.append(fail("raised", f"seed {sd}: {type(res).__name__}: {res}", **tags))
            continue
        U, s_, V = G.from_quat(res[0]), np.asarray(res[1], float), G.from_quat(res[2])
        if U.shape[:2] != (m, R) or V.shape[:2] != (n, R) or s_.shape != (R,) or not (O.is_finite(U) and O.is_finite(V)):
            fails.append(fail("shapes", f"seed {sd}", **tags))
            continue
        dU, dV = O.unitarity_defect(U), O.unitarity_defect(V)
        if dU > 1e-9:
            fails.append(fail("U_orthonormal", f"seed {sd} (first sketch column in null(A)): ||U^H U - I|| = {dU:.3e}", dev_over_cond_u=dU / (8 * O.U), **tags))
        if dV > 1e-9:
            fails.append(fail("V_orthonormal", f"seed {sd} (first sketch column in null(A)): ||V^H V - I|| = {dV:.3e}", dev_over_cond_u=dV / (8 * O.U), **tags))
        if np.any(s_ > sig * (1 + 1e-9) + 1e-10 * nA):
            fails.append(fail("s_i<=sigma_i", f"seed {sd}: s = {s_.tolist()} sigma = {sig.tolist()}", **tags))
        err = O.fro(A - O.qmatmul(O.qmatmul(U, G.diag_real(s_, R, R)), O.qH(V)))
        if err > 1e-8 * nA:
            fails.append(fail("exact_on_low_rank", f"seed {sd}: rank {R} = R, the first sketch column lies in null(A), oversample {P}: error {err:.3e}", **tags))
        ok_runs += 1
    return {"key": case["key"], "fails": fails[:24], "nontrivial_n": evals, "evals": evals, "transitions": evals, "traces": ok_runs - len({f["tags"].get("seed") for f in fails}),
            "digest": case["key"], "path": f"{case['fn']},adversarial_sketch", "obs": [f["clause"] for f in fails]}


def run_case(case, seed):
    if case.get("adv"):
        return run_adv(case, seed)
    lib = load()
    m, n, r, R, P = case["m"], case["n"], case["r"], case["R"], case["P"]
    p = min(m, n)
    fill = G.Fill(seed, stream=hash_tag(f"{m}x{n}/r={r}"))
    vals = VALS[:r] + [0.0] * (p - r)
    lay = "C"
    if case.get("vals"):
        vals = list(case["vals"]) + [0.0] * (p - len(case["vals"]))
        A, _, _ = SG.build(m, n, vals, "hh", "hh", fill, variant=7)
    elif case.get("graded"):
        vals = [4.0, 2.0, 1.0, 2.0 ** -36]
        A, _, _ = SG.build(m, n, vals, "hh", "hh", fill, variant=5)
    elif case.get("mask") or case.get("xf"):
        if case.get("xf"):
            A, lay = xf_build(case["xf"], m, n, fill)
        else:
            B_ = fill.quat_int(m, n, -4, 4).astype(float)
            B_[B_ == 0] = 2.0
            A = G.apply_component_mask(B_, case["mask"])
        vals = [float(v) for v in O.svals(A)]
        r = int(sum(1 for v in vals if v > 1e-9 * max(vals[0], 1e-300)))
        vals = [v if i < r else 0.0 for i, v in enumerate(vals)]
    else:
        A, _, _ = SG.build(m, n, vals, "hh", "hh", fill, variant=r)
    if case.get("scale"):
        A = np.ldexp(A, case["scale"])
        vals = [float(np.ldexp(v, case["scale"])) for v in vals]
    sig = np.array(vals)
    nA = O.fro(A)
    Aq = relayout(G.to_quat(A), lay)
    f = getattr(lib.qsvd, case["fn"])
    S = case.get("S", 4)
    fails = []
    evals = 0
    ok_runs = 0
    wide_sketch = (R + P) > p
    tags = {"fn": case["fn"], "wide_sketch": wide_sketch, "sketch_gt_rank": (R + P) > r, "r_lt_R": r < R or (case.get("mask") is not None and len(vals) > 1 and abs(vals[0] - vals[1]) <= 1e-9 * vals[0]),
            "repeated": bool(any(abs(vals[i] - vals[i + 1]) <= 1e-7 * vals[0] for i in range(r - 1))), "xf": case.get("xf"),
            "illcond": bool(r >= 1 and vals[0] / vals[r - 1] >= 2.0 ** 10), "m": m, "n": n, "R": R, "P": P, "r": r, "arg": case["arg"]}
    first = None
    for sd in range(S):
        np.random.seed(sd)
        before = Aq.tobytes()
        ok, res = call(f, Aq, R, P, case["arg"])
        evals += 1
        t2 = {**tags, "seed": sd}
        if Aq.tobytes() != before:
            fails.append(fail("input_unchanged", "argument modified", **t2))
        if not ok:
            fails.append(fail("raised", f"seed {sd}: {type(res).__name__}: {res}", **t2))
            continue
        U, s, V = res
        U, V, s = G.from_quat(U), G.from_quat(V), np.asarray(s, float)
        if U.shape[:2] != (m, R) or V.shape[:2] != (n, R) or s.shape != (R,):
            fails.append(fail("shapes", f"seed {sd}: U{U.shape[:2]} s{s.shape} V{V.shape[:2]}", **t2))
            continue
        if not (O.is_finite(U) and O.is_finite(V) and np.all(np.isfinite(s))):
            fails.append(fail("finite", f"seed {sd}", **t2))
            continue
        tolu = 1e-9
        if True:
            nzv_ = sorted({v for v in vals if v > 0}, reverse=True)
            gap_rel_ = min(((a - b) / nzv_[0] for a, b in zip(nzv_, nzv_[1:])), default=1.0)
            if gap_rel_ < 2.0 ** -12:  # close singular values: accuracy ~ u sigma_1 / gap (see C05); gross errors are still decided
                tolu = max(tolu, 512 * O.U / gap_rel_)
        dU, dV = O.unitarity_defect(U), O.unitarity_defect(V)
        cu = (vals[0] / vals[r - 1]) * O.U if r >= 1 else 1.0
        if dU > tolu:
            fails.append(fail("U_orthonormal", f"seed {sd}: ||U^H U - I|| = {dU:.3e}", dev_over_cond_u=dU / cu, **t2))
        if dV > tolu:
            fails.append(fail("V_orthonormal", f"seed {sd}: ||V^H V - I|| = {dV:.3e}", dev_over_cond_u=dV / cu, **t2))
        if np.any(s < -1e-12 * nA) or np.any(np.diff(s) > 1e-10 * nA):
            fails.append(fail("s_nonneg_nonincreasing", f"seed {sd}: s = {s.tolist()}", **t2))
        if np.any(s > sig[:R] * (1 + 1e-9) + 1e-10 * nA):
            fails.append(fail("s_i<=sigma_i", f"seed {sd}: s = {s.tolist()} sigma = {sig[:R].tolist()}", **t2))
        rec = O.qmatmul(O.qmatmul(U, G.diag_real(s, R, R)), O.qH(V))
        err = O.fro(A - rec)
        opt = float(np.sqrt(np.sum(sig[R:] ** 2)))
        if err < opt * (1 - 1e-9) - 1e-10 * nA:
            fails.append(fail("error>=eckart_young", f"seed {sd}: error {err!r} < optimum {opt!r}", **t2))
        if err > nA * (1 + 1e-9):
            fails.append(fail("error<=||A||_F", f"seed {sd}: error {err!r} > ||A||_F = {nA!r}", **t2))
        if r <= R and err > 1e-8 * nA:
            fails.append(fail("exact_on_low_rank", f"seed {sd}: rank {r} <= R = {R} but error {err:.3e}", **t2))
        if sd == 0:
            first = (U.tobytes(), s.tobytes(), V.tobytes())
            np.random.seed(0)
            ok2, res2 = call(f, Aq, R, P, case["arg"])
            if not ok2 or (G.from_quat(res2[0]).tobytes(), np.asarray(res2[1], float).tobytes(), G.from_quat(res2[2]).tobytes()) != first:
                fails.append(fail("same_seed_same_output", "two runs with seed 0 differ", **t2))
        ok_runs += 1
        if sd == 1 and first is not None and r > R and (R + P) < min(m, n) and (U.tobytes(), s.tobytes(), V.tobytes()) == first:
            # the sketch is drawn from numpy's global generator: with rank(A) > R and a sketch narrower than the matrix two seeds cannot coincide
            fails.append(fail("seed_not_used", "global seeds 0 and 1 give bit-identical factors although the result depends on the random sketch", **t2))
    return {
        "key": case["key"],
        "fails": fails[:24],
        "nontrivial_n": evals if r >= 1 else 0,
        "evals": evals,
        "transitions": evals,
        "traces": ok_runs - len({f["tags"].get("seed") for f in fails}),
        "digest": digest(A, case["key"]),
        "path": f"{case['fn']},wide_sketch={wide_sketch},r<R={r < R}",
        "obs": [f["clause"] for f in fails],
    }
