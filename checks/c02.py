"""C02 — real and complex embeddings are faithful *-homomorphisms with exact round trip."""
from __future__ import annotations

import itertools

import numpy as np

from checks.common import comps, hash_tag, relayout, to_sparse, xf_build, xf_names
from qmc import gen as G
from qmc import oracle as O
from qmc.loader import load
from qmc.run import call, fail

ID = "C02"
LEVEL = "model_checking"
RULE = (
    "one case = (embedding, shape); inside: every position x basis unit (layout vs the independent "
    "left-regular representation), basis pairs (multiplicativity), pattern classes (round trips, norm "
    "scaling); an evaluation is one embedding call compared entrywise; non-trivial = non-zero input"
)
BOUNDS = {
    "quick": "shapes m,n<=3 (square only for the complex adjoint), all positions x 4 units, multiplicativity on all basis pairs of shapes<=2 and pattern pairs <=3, 8 bit-pattern classes",
    "thorough": "same with shapes<=5",
}
THOROUGH_STREAMS = 8
WALL_BUDGET = {"quick": 240, "thorough": 1200}
ASSUMPTIONS = ["the oracle embedding is built column by column from the Hamilton table and is itself verified to be a *-homomorphism on all signed-unit pairs (oracle.selftest)"]

EMB = ["real_expand", "Realp", "cadj", "split_merge"]


def rank_exact(rows):
    """Exact rank of an integer matrix (fraction-free Gaussian elimination)."""
    M = [[int(v) for v in r] for r in rows]
    rk = 0
    ncol = len(M[0]) if M else 0
    r = 0
    for c in range(ncol):
        piv = next((i for i in range(r, len(M)) if M[i][c] != 0), None)
        if piv is None:
            continue
        M[r], M[piv] = M[piv], M[r]
        for i in range(r + 1, len(M)):
            if M[i][c] != 0:
                a, b = M[r][c], M[i][c]
                M[i] = [a * x - b * y for x, y in zip(M[i], M[r])]
        r += 1
        rk += 1
        if r == len(M):
            break
    return rk



def _dedupe(cases_):
    """the same cell can be listed by two enumerations (e.g. a tall shape that the thorough bound also reaches): keep the first."""
    seen, out_ = set(), []
    for c in cases_:
        if c["key"] not in seen:
            seen.add(c["key"])
            out_.append(c)
    return out_


def cases(tier, seed):
    S = 3 if tier == "quick" else 5
    out = []
    for emb in EMB:
        for m, n in itertools.product(range(1, S + 1), repeat=2):
            if emb == "cadj" and m != n:
                continue
            out.append({"key": f"{emb}/{m}x{n}", "emb": emb, "m": m, "n": n})
    # shapes with a dimension equal to 4 (the number of components: layouts (4,m,n), (m,n,4), (4,m,4) become ambiguous) and 8
    for (m, n) in ((1, 4), (4, 1), (4, 4), (2, 4), (4, 2), (3, 4), (4, 3), (5, 4), (6, 4), (4, 8), (8, 4)):
        if (m, n) not in [(a, b) for a in range(1, S + 1) for b in range(1, S + 1)]:
            out.append({"key": f"split_merge/{m}x{n}", "emb": "split_merge", "m": m, "n": n})
            out.append({"key": f"Realp/{m}x{n}", "emb": "Realp", "m": m, "n": n})
            out.append({"key": f"real_expand/{m}x{n}", "emb": "real_expand", "m": m, "n": n})
    for emb in ("real_expand", "Realp", "cadj"):
        for m, k, n in itertools.product(range(1, S + 1), repeat=3):
            if emb == "cadj" and not (m == k == n):
                continue
            out.append({"key": f"mult/{emb}/{m}x{k}x{n}", "emb": emb, "mult": True, "m": m, "k": k, "n": n})
    return _dedupe(out)


def emb_fn(lib, emb):
    u = lib.utils
    if emb == "real_expand":
        return (lambda A: u.real_expand(G.to_quat(A))), O.real_interleaved, 4.0
    if emb == "Realp":
        return (lambda A: u.Realp(*comps(A))), O.real_blocked, 4.0
    if emb == "cadj":
        return (lambda A: u.quaternion_to_complex_adjoint(G.to_quat(A))), O.complex_adjoint, 2.0
    raise ValueError(emb)


BITCLASSES = ["generic", "ints", "negzero", "subnormal", "huge", "tiny", "mixed_scale", "zero"]


def bit_pattern(cls, m, n, fill):
    if cls == "generic":
        return fill.quat(m, n, bits=6, lo=-1000, hi=1000)
    if cls == "ints":
        return fill.quat_int(m, n).astype(float)
    if cls == "negzero":
        A = fill.quat_int(m, n, -1, 1).astype(float)
        A[A == 0] = -0.0
        return A
    if cls == "subnormal":
        return fill.quat_int(m, n, -5, 5).astype(float) * 5e-324
    if cls == "huge":
        return np.ldexp(fill.quat_int(m, n, -7, 7).astype(float), 300)
    if cls == "tiny":
        return np.ldexp(fill.quat_int(m, n, -7, 7).astype(float), -300)
    if cls == "mixed_scale":
        A = fill.quat_int(m, n, -7, 7).astype(float)
        e = fill.ints((m, n, 4), -300, 300)
        return np.ldexp(A, e)
    return np.zeros((m, n, 4))


def run_case(case, seed):
    lib = load()
    u = lib.utils
    fails = []
    evals = 0
    nontriv = 0
    emb = case["emb"]
    m, n = case["m"], case["n"]
    fill = G.Fill(seed, stream=hash_tag(case["key"]))
    tags = {"emb": emb}

    if case.get("mult"):
        k = case["k"]
        f, orc, _ = emb_fn(lib, emb)
        pairs = []
        if max(m, k, n) <= 2:
            bA = [(p, t) for p in itertools.product(range(m), range(k)) for t in range(4)]
            bB = [(p, t) for p in itertools.product(range(k), range(n)) for t in range(4)]
            for (pa, ta), (pb, tb) in itertools.product(bA, bB):
                A = np.zeros((m, k, 4))
                B = np.zeros((k, n, 4))
                A[pa][ta] = 1
                B[pb][tb] = 1
                pairs.append((A, B))
        for _ in range(6):
            pairs.append((fill.quat(m, k, bits=3, lo=-20, hi=20), fill.quat(k, n, bits=3, lo=-20, hi=20)))
        for A, B in pairs:
            AB = O.qmatmul(A, B)
            ok, r = call(lambda: (f(A), f(B), f(AB)))
            evals += 1
            if not ok:
                fails.append(fail("embedding_raised", f"{r}", **tags))
                continue
            FA, FB, FAB = r
            nontriv += 1 if AB.any() else 0
            if FA.shape[1] != FB.shape[0] or not np.array_equal(np.asarray(FA) @ np.asarray(FB), np.asarray(FAB)):
                fails.append(fail("multiplicative", f"phi(A)phi(B) != phi(AB) for A={A.tolist()} B={B.tolist()}"[:500], **tags))
            # *-compatibility
            ok, FAH = call(f, O.qH(A))
            if not ok:
                fails.append(fail("embedding_raised", f"{FAH}", **tags))
            else:
                ref = np.asarray(FA).conj().T if emb == "cadj" else np.asarray(FA).T
                if not np.array_equal(np.asarray(FAH), ref):
                    fails.append(fail("star_compatible", f"phi(A^H) != phi(A)^(T/H) for A={A.tolist()}"[:400], **tags))
        return _ret(case, fails, evals, nontriv)

    if emb in ("real_expand", "Realp", "cadj"):
        f, orc, nscale = emb_fn(lib, emb)
        images = []
        for (i, j), t in itertools.product(itertools.product(range(m), range(n)), range(4)):
            for sgn in (1.0, -1.0, 0.5):
                A = np.zeros((m, n, 4))
                A[i, j, t] = sgn
                ok, F = call(f, A)
                evals += 1
                nontriv += 1
                if not ok:
                    fails.append(fail("embedding_raised", f"{F}", **tags))
                    continue
                F = np.asarray(F)
                exp = orc(A)
                if F.shape != exp.shape or not np.array_equal(F, exp):
                    fails.append(fail("layout", f"unit {G.UNIT_NAMES[t]}*{sgn} at ({i},{j}): embedding differs from the left-regular representation", pos=[i, j], unit=t, **tags))
                if sgn == 1.0:
                    if emb == "cadj":
                        images.append(np.concatenate([F.real.reshape(-1), F.imag.reshape(-1)]))
                    else:
                        images.append(F.reshape(-1))
        if images and not fails:
            rk = rank_exact(images)
            if rk != 4 * m * n:
                fails.append(fail("injective", f"rank of basis images {rk} != {4 * m * n}", **tags))
        # real-linearity + norm scaling + pattern classes
        for cls in BITCLASSES:
            A = bit_pattern(cls, m, n, fill)
            B = bit_pattern("ints", m, n, fill)
            ok, r = call(lambda: (f(A), f(B), f(2.0 * A + B) if cls in ("generic", "ints", "zero") else None))
            evals += 1
            if not ok:
                fails.append(fail("embedding_raised", f"{cls}: {r}", cls=cls, **tags))
                continue
            FA, FB, FS = r
            FA = np.asarray(FA)
            if not np.array_equal(FA, orc(A)):
                fails.append(fail("layout", f"class {cls}: embedding differs from the left-regular representation", cls=cls, **tags))
            if FS is not None and not np.array_equal(np.asarray(FS), 2.0 * FA + np.asarray(FB)):
                fails.append(fail("real_linear", f"class {cls}", cls=cls, **tags))
            if cls in ("generic", "ints"):
                # squared Frobenius norm scales by exactly 4 (resp. 2): integers/dyadics -> exact
                lhs = float(np.sum(FA.real ** 2) + np.sum(FA.imag ** 2))
                rhs = nscale * float(np.sum(A ** 2))
                if lhs != rhs:
                    fails.append(fail("norm_scaling", f"class {cls}: ||phi(A)||_F^2={lhs!r} vs {nscale}*||A||_F^2={rhs!r}", cls=cls, **tags))
            if emb == "real_expand":
                ok, back = call(u.real_contract, FA, m, n)
                evals += 1
                if not ok:
                    fails.append(fail("contract_raised", f"{cls}: {back}", cls=cls, **tags))
                elif G.from_quat(back).tobytes() != np.ascontiguousarray(A).tobytes():
                    fails.append(fail("round_trip_bitwise", f"class {cls}: real_contract(real_expand(A)) is not bit-identical to A", cls=cls, **tags))
        if emb in ("real_expand", "Realp"):
            # non-finite components are values too: the representation is pure placement (with sign), so +-inf and nan land in exactly the
            # 4 slots of their component and nowhere else (a representation computed as a sum of products with 0/1 matrices turns them
            # into nan everywhere)
            An = fill.quat_int(m, n, -3, 3).astype(float)
            An[0, 0, 2] = np.inf
            An[m - 1, n - 1, 0] = -np.inf
            An[0, n - 1, 3] = np.nan
            ok, Fn = call(f, An) if emb == "Realp" else call(u.real_expand, G.to_quat(An))
            evals += 1
            w_, x_, y_, z_ = (An[..., t] for t in range(4))
            blocks = [[w_, -x_, -y_, -z_], [x_, w_, -z_, y_], [y_, z_, w_, -x_], [z_, -y_, x_, w_]]
            if emb == "Realp":
                expn = np.block(blocks)
            else:
                expn = np.zeros((4 * m, 4 * n))
                for a_ in range(4):
                    for b_ in range(4):
                        expn[a_::4, b_::4] = blocks[a_][b_]
            if not ok or np.asarray(Fn).shape != expn.shape or not np.array_equal(np.asarray(Fn), expn, equal_nan=True):
                fails.append(fail("layout", "non-finite components (inf, -inf, nan) are not placed like every other value", cls="nonfinite", **tags))
        if emb in ("real_expand", "cadj", "Realp"):
            # every "unusual but legal" variant: the embedding is pure data movement, so it equals the oracle's exactly, the round trip is
            # bitwise and the norm factor is exact on these dyadic inputs
            for nm_ in xf_names(m, n):
                Ax, lay_ = xf_build(nm_, m, n, fill)
                ok, F = call(f, Ax) if emb == "Realp" else call(u.real_expand if emb == "real_expand" else u.quaternion_to_complex_adjoint, relayout(G.to_quat(Ax), lay_))
                evals += 1
                if not ok or not np.array_equal(np.asarray(F), orc(Ax)):
                    fails.append(fail("layout", f"variant {nm_}: embedding differs from the oracle's", cls="xf:" + nm_, **tags))
                elif emb == "real_expand":
                    ok2, back = call(u.real_contract, F, m, n)
                    if not ok2 or G.from_quat(back).tobytes() != np.ascontiguousarray(Ax).tobytes():
                        fails.append(fail("round_trip_bitwise", f"variant {nm_}: real_contract(real_expand(A)) is not bit-identical to A", cls="xf:" + nm_, **tags))
        if emb in ("real_expand", "cadj"):
            # the same matrix in other memory layouts (Fortran order, transposed view, strided view)
            A = fill.quat(m, n, bits=4, lo=-40, hi=40)
            for lay in ("F", "T", "view", "ro"):
                Aq = relayout(G.to_quat(A), lay)
                ok, F = call(u.real_expand if emb == "real_expand" else u.quaternion_to_complex_adjoint, Aq)
                evals += 1
                nontriv += 1
                if not ok or not np.array_equal(np.asarray(F), orc(A)):
                    fails.append(fail("layout", f"input in memory layout {lay}: embedding differs", cls="layout_" + lay, **tags))
        if emb == "real_expand":
            # wrong-shape contraction is rejected
            R = np.zeros((4 * m, 4 * n))
            for (mm, nn) in ((m + 1, n), (m, n + 1), (n + 1, m + 2)):
                ok, r = call(u.real_contract, R, mm, nn)
                evals += 1
                if ok:
                    fails.append(fail("wrong_shape_contract_accepted", f"real_contract(R{R.shape}, {mm}, {nn}) returned", **tags))
            # scalar form of Realp for every unit
        if emb == "Realp":
            # component planes of mixed dtype (integer / single-precision real plane, float64 imaginary planes, and vice versa)
            A = fill.quat_int(m, n, -5, 5).astype(float) + np.array([0.0, 0.5, 0.25, 0.75])
            A[..., 0] = np.round(A[..., 0])
            c0, c1, c2, c3 = comps(A)
            for nm, planes in (("int_real_plane", (c0.astype(np.int64), c1, c2, c3)), ("f32_real_plane", (c0.astype(np.float32), c1, c2, c3)),
                               ("int_k_plane", (c0 + 0.5, c1, c2, np.round(c3).astype(np.int64)))):
                Aexp = np.stack([np.asarray(pl, float) for pl in planes], axis=-1)
                ok, F = call(u.Realp, *planes)
                evals += 1
                nontriv += 1
                if not ok or not np.array_equal(np.asarray(F, float), O.real_blocked(Aexp)):
                    fails.append(fail("layout", f"Realp with {nm}: embedding differs from the left-regular representation (dtype handling)", cls=nm, **tags))
        if emb == "Realp" and (m, n) == (1, 1):
            for q in list(G.SIGNED_UNITS) + [np.array([3, -2, 5, 7])]:
                ok, F = call(u.Realp, float(q[0]), float(q[1]), float(q[2]), float(q[3]))
                evals += 1
                nontriv += 1
                if not ok or not np.array_equal(np.asarray(F), O.left4(q.astype(float))):
                    fails.append(fail("layout", f"scalar Realp({q.tolist()})", form="scalar", **tags))
    else:  # split / merge of component planes
        solver = lib.solver.QGMRESSolver()
        for cls in BITCLASSES:
            A = bit_pattern(cls, m, n, fill)
            nontriv += 1 if A.any() else 0
            c0, c1, c2, c3 = comps(A)
            # A2A0123 on the documented stacking [A0 A2 A1 A3]
            ok, r = call(u.A2A0123, np.hstack([c0, c2, c1, c3]))
            evals += 1
            if not ok or any(x.tobytes() != y.tobytes() or x.shape != y.shape for x, y in zip(r, (c0, c1, c2, c3))):
                fails.append(fail("A2A0123_split", f"class {cls}", cls=cls, **tags))
            Aq = G.to_quat(A)
            ok, r = call(solver._quat_to_components, Aq)
            evals += 1
            if not ok or any(np.ascontiguousarray(x).tobytes() != y.tobytes() for x, y in zip(r, (c0, c1, c2, c3))):
                fails.append(fail("quat_to_components", f"class {cls}", cls=cls, **tags))
            else:
                ok, back = call(solver._components_to_quat, *r)
                if not ok or G.from_quat(back).tobytes() != np.ascontiguousarray(A).tobytes():
                    fails.append(fail("components_round_trip", f"class {cls}", cls=cls, **tags))
            # the component format itself, in every container the fallback branch accepts: tuple, list, ndarray stacked on axis 0
            for cname, cont in (("tuple", (c0, c1, c2, c3)), ("list", [c0, c1, c2, c3]), ("stacked_axis0", np.stack([c0, c1, c2, c3], axis=0))):
                ok, r = call(solver._quat_to_components, cont)
                evals += 1
                if not ok or len(r) != 4 or any(np.asarray(x).shape != y.shape or np.ascontiguousarray(x).tobytes() != y.tobytes() for x, y in zip(r, (c0, c1, c2, c3))):
                    fails.append(fail("components_passthrough", f"class {cls}: planes given as {cname} ({m}x{n}) do not come back unchanged", cls=cls, container=cname, **tags))
            ok, r = call(solver._quat_to_components, to_sparse(lib, A))
            evals += 1
            if not ok or any(not np.array_equal(np.asarray(x), y) for x, y in zip(r, (c0, c1, c2, c3))):
                fails.append(fail("sparse_to_components", f"class {cls}", cls=cls, **tags))
            # merging is a function of the four planes IN THE ORDER GIVEN, whatever memory they live in: all 24 orders x
            # (fresh copies | views of one float (m,n,4) buffer | views of the float view of one quaternion array | Fortran copies),
            # plus repeated planes
            if cls in ("dyadic", "negzero", BITCLASSES[0]):
                import quaternion as _q

                A4 = np.ascontiguousarray(A)
                Aq_owner = G.to_quat(A)
                fv = _q.as_float_array(Aq_owner)
                stores = {"fresh": [c.copy() for c in (c0, c1, c2, c3)], "views_float_buffer": [A4[..., t] for t in range(4)],
                          "views_quat_buffer": [fv[..., t] for t in range(4)], "fortran": [np.asfortranarray(c) for c in (c0, c1, c2, c3)]}
                orders = list(itertools.permutations(range(4))) + [(1, 1, 1, 1), (0, 0, 2, 2), (3, 2, 2, 3)]
                for sname, planes in stores.items():
                    for order in orders:
                        ok, back = call(solver._components_to_quat, *[planes[t] for t in order])
                        evals += 1
                        exp = np.stack([(c0, c1, c2, c3)[t] for t in order], axis=-1)
                        if not ok or G.from_quat(back).tobytes() != np.ascontiguousarray(exp).tobytes():
                            fails.append(fail("components_merge_order", f"class {cls}: planes {order} stored as {sname}: merged matrix is not the stack of the given planes", cls=cls, store=sname, order=list(order), **tags))
    return _ret(case, fails, evals, nontriv)


def _ret(case, fails, evals, nontriv):
    return {
        "key": case["key"],
        "fails": fails[:40],
        "evals": evals,
        "nontrivial_n": nontriv,
        "transitions": evals,
        "traces": evals - len(fails),
        "obs": {"evals": evals, "fails": len(fails)},
        "sample": {"evals": evals},
    }
