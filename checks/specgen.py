"""Shared enumerators for decomposition checks: spectra by composition, factor kinds."""
from __future__ import annotations

import numpy as np

from qmc import gen as G
from qmc import oracle as O

MENU = [4.0, 2.0, 1.0, 0.5, 0.25, 0.125]


def spectra(p, menu=MENU, ranks=None):
    """All singular spectra of length p: for every rank r=0..p every composition of r into
    clusters (values from menu, descending), followed by p-r zeros.  Returns list of
    (values, clusters) where clusters is the composition tuple."""
    out = []
    for r in (range(p + 1) if ranks is None else ranks):
        for comp in G.compositions(r):
            vals = G.spectrum_from_composition(comp, menu) + [0.0] * (p - r)
            out.append((vals, comp, r))
    return out


FACTOR_KINDS = [("id", "id"), ("mono", "mono"), ("hh", "hh")]


def build(m, n, vals, kU, kV, fill, variant=0):
    Uq = G.unitary(kU, m, fill, variant)
    Vq = G.unitary(kV, n, fill, variant + 1)
    return G.with_spectrum(Uq, vals, Vq), Uq, Vq


def cluster_info(vals, m, n):
    """max multiplicity among non-zero values, rank, left/right nullity."""
    nz = [v for v in vals if v > 0]
    r = len(nz)
    mult = 0
    for v in set(nz):
        mult = max(mult, nz.count(v))
    return {"rank": r, "max_mult": mult, "null_right": n - r, "null_left": m - r}


def degenerate_within(vals, m, n, R=None):
    """True iff a cluster of size >= 2 (equal non-zero values, or a null space of dimension
    >= 2 on either side) intersects the first R returned columns (R=None: all columns)."""
    p = min(m, n)
    r = sum(1 for v in vals if v > 0)
    Rv = n if R is None else R
    Ru = m if R is None else R
    # non-zero clusters: at least two returned columns must come from the same cluster
    i = 0
    while i < r:
        j = i
        while j + 1 < r and vals[j + 1] == vals[i]:
            j += 1
        if j > i and i + 2 <= max(Rv, Ru):
            return True
        i = j + 1
    if min(Rv, n) - r >= 2:
        return True
    if min(Ru, m) - r >= 2:
        return True
    return False
