"""C13 — sketch-and-project, hybrid and CGNE solvers never flag a wrong inverse converged.

Each (solver, configuration, seed) run is a deterministic trace (the constructor seeds the
global generator).  The harness owns the randomness: it regenerates the test sketch (the
first normals drawn after seeding, in the code's call order) and turns the proxy residual
into a sound bound:  ||E||_F <= ||E Pi||_F / sigma_min(Pi)  for E = X A - I (resp. A X - I).
"""
from __future__ import annotations

import itertools
import math

import numpy as np

from checks.common import hash_tag, canon_value, quiet_call
from qmc import gen as G
from qmc import oracle as O
from qmc.loader import load
from qmc.run import call, digest, fail

ID = "C13"
LEVEL = "model_checking"
RULE = (
    "one case = (solver entry point, shape, cond, tol, block size / solver options); inside, seeds 0..S-1 are enumerated (one run = one trace); "
    "states = end states (config, seed, iteration count), transitions = iterations executed (history lengths); a capped non-converged run is a legitimate "
    "vacuous state and is counted separately; non-trivial = run with converged=True; distinct = (case key, seed)"
)
BOUNDS = {
    "quick": "shapes n<=m<=4 with m-n<=2, n<=4 (column/hybrid/CGNE) and m<=n (row), plus large cells n in {9,10,12} > sketch size; cond {1,10,1000}; tol {1e-3,1e-6,1e-8}; block 1..min(m,n); column_solver {qr,spd}; hybrid p {2,3,4,8} T {1,3,5} r in {1,n}; CGNE prec rank 0..n; seeds 0..2; max_iter 150",
    "thorough": "shapes m<=5, seeds 0..11, cond {1,10,100,1000}, max_iter 600",
}
WALL_BUDGET = {"quick": 900, "thorough": 3400}
ASSUMPTIONS = [
    "test sketch regenerated with numpy's MT19937 stream order (randn for w,x,y,z planes in that order) right after np.random.seed(seed)",
    "test_sketch_size = 8 >= n so that sigma_min of the test sketch is positive",
]


def shapes_tall(tier="thorough"):
    mmax = 5 if tier == "quick" else 6
    return [(m, n) for n in range(1, 5) for m in range(n, mmax) if tier != "quick" or m - n <= 2]


def make_A(m, n, cond, fill):
    p = min(m, n)
    vals = [cond ** (-i / max(p - 1, 1)) for i in range(p)] if p > 1 else [1.0]
    A = G.with_spectrum(G.unitary("hh", m, fill, variant=m), vals, G.unitary("hh", n, fill, variant=n + 3))
    return A, vals


def cases(tier, seed):
    conds = [1.0, 10.0, 1000.0] if tier == "quick" else [1.0, 10.0, 100.0, 1000.0]
    tols = [1e-3, 1e-6, 1e-8]
    out = []
    for (m, n) in shapes_tall(tier):
        for c in conds:
            if min(m, n) == 1 and c != 1.0:
                continue
            for tol in tols:
                for bs in range(1, n + 1):
                    for cs in ("qr", "spd"):
                        out.append({"key": f"col/{m}x{n}/c={c:g}/tol={tol:g}/b={bs}/{cs}", "ep": "col", "m": m, "n": n, "cond": c, "tol": tol, "bs": bs, "cs": cs})
                if m > n or True:
                    for bs in range(1, n + 1):
                        out.append({"key": f"row/{n}x{m}/c={c:g}/tol={tol:g}/b={bs}", "ep": "row", "m": n, "n": m, "cond": c, "tol": tol, "bs": bs, "cs": "qr"})
                out.append({"key": f"auto/{m}x{n}/c={c:g}/tol={tol:g}", "ep": "auto", "m": m, "n": n, "cond": c, "tol": tol, "bs": 16, "cs": "qr"})
            for tol in (1e-6,):
                for p_, T in itertools.product((2, 3, 4, 8), (1, 3, 5)):
                    for r in sorted({1, n}):
                        out.append({"key": f"hyb/{m}x{n}/c={c:g}/tol={tol:g}/p={p_}/T={T}/r={r}", "ep": "hyb", "m": m, "n": n, "cond": c, "tol": tol, "p": p_, "T": T, "r": r, "cs": "qr"})
            for tol in tols:
                for pr in range(0, n + 1):
                    out.append({"key": f"cgne/{m}x{n}/c={c:g}/tol={tol:g}/pr={pr}", "ep": "cgne", "m": m, "n": n, "cond": c, "tol": tol, "pr": pr})
    # larger problems: n > test_sketch_size = 8, where the test sketch is not injective any more
    for (m, n) in ((10, 9), (12, 12), (14, 10), (9, 7)):
        for bs in (4, 8, 9):
            if bs > n:
                continue  # the property quantifies over block sizes 1..min(m,n) (observation: block sizes in (n, m] return a left inverse that is not A^+)
            for cs in ("qr", "spd"):
                if cs == "spd" and bs == 4 and tier == "quick":
                    continue
                out.append({"key": f"col-large/{m}x{n}/b={bs}/{cs}", "ep": "col", "m": m, "n": n, "cond": 10.0, "tol": 1e-6, "bs": bs, "cs": cs, "large": True})
            out.append({"key": f"row-large/{n}x{m}/b={bs}", "ep": "row", "m": n, "n": m, "cond": 10.0, "tol": 1e-6, "bs": bs, "cs": "qr", "large": True})
        out.append({"key": f"hyb-large/{m}x{n}", "ep": "hyb", "m": m, "n": n, "cond": 10.0, "tol": 1e-6, "p": 3, "T": 3, "r": min(8, n), "cs": "qr", "large": True})
        # block sizes around the width of the hybrid's monitoring sketch (min(6, n)) and of the RSP test sketch, both micro-solvers
        for r_ in (5, 6, 7):
            for cs in ("qr", "spd"):
                out.append({"key": f"hyb-large/{m}x{n}/r={r_}/{cs}", "ep": "hyb", "m": m, "n": n, "cond": 10.0, "tol": 1e-6, "p": 2, "T": 2, "r": r_, "cs": cs, "large": True})
    # CGNE needs more than 100 iterations on larger ill-conditioned inputs (periodic code paths inside the loop)
    for (m, n, cnd) in ((40, 30, 1000.0), (48, 40, 300.0)):
        for tol in (1e-3, 1e-6):
            out.append({"key": f"cgne-large/{m}x{n}/c={cnd:g}/tol={tol:g}", "ep": "cgne", "m": m, "n": n, "cond": cnd, "tol": tol, "pr": 0, "large": True, "S1": True})
    # badly row-scaled / column-scaled well-conditioned inputs (one row or column multiplied by 2^-10 or 2^10): the answer must still be
    # the Moore-Penrose inverse, not just some left inverse
    for (m, n) in ((5, 3), (6, 2), (4, 4), (7, 4)):
        for axis in ("row", "col"):
            for idx in range(m if axis == "row" else n):
                for e in (-10, 10):
                    out.append({"key": f"cgne-scaled/{m}x{n}/{axis}{idx}/2^{e}", "ep": "cgne", "m": m, "n": n, "cond": 2.0, "tol": 1e-8, "pr": 0, "rs": [axis, idx, e], "S1": True})
                    if idx == 0:
                        out.append({"key": f"col-scaled/{m}x{n}/{axis}{idx}/2^{e}", "ep": "col", "m": m, "n": n, "cond": 2.0, "tol": 1e-8, "bs": 2, "cs": "qr", "rs": [axis, idx, e]})
                        out.append({"key": f"hyb-scaled/{m}x{n}/{axis}{idx}/2^{e}", "ep": "hyb", "m": m, "n": n, "cond": 2.0, "tol": 1e-8, "p": 2, "T": 3, "r": 2, "cs": "qr", "rs": [axis, idx, e]})
    # the flag must be sound on every call of a reused object, too (a converging call first, then a call that
    # exhausts a tight budget, then a converging one again)
    for cls in ("cgne", "col", "hyb"):
        for budget in (2, 4, 12):
            out.append({"key": f"reuse/{cls}/budget={budget}", "ep": "reuse", "cls": cls, "budget": budget, "m": 0, "n": 0, "cond": 0, "tol": 1e-8})
    for c in out:
        c["S"] = 3 if tier == "quick" else 12
        c["MAXIT"] = 150 if tier == "quick" else 600
    return out


def regen_sketch(seed, rows, cols):
    np.random.seed(seed)
    parts = [np.random.randn(rows, cols) for _ in range(4)]
    return np.stack(parts, axis=-1)


def smin(Pq):
    s = O.svals(Pq)
    return float(s[-1]) if len(s) else 0.0


_FALLBACK = {"n": 0}
_first_hist = {}


def init_worker():
    """count invocations of the Newton-Schulz fallback micro-solver (observation only)."""
    sv = load().solver
    orig = sv.RandomizedSketchProjectPseudoinverse._invert_quat_small
    if getattr(orig, "_qmc_wrapped", False):
        return

    def counted(self, A, ns_iters=12):
        _FALLBACK["n"] += 1
        return orig(self, A, ns_iters)

    counted._qmc_wrapped = True
    sv.RandomizedSketchProjectPseudoinverse._invert_quat_small = counted


def run_reuse(case, seed):
    lib = load()
    sv = lib.solver
    cls, budget, tol = case["cls"], case["budget"], case["tol"]
    fill = G.Fill(seed, stream=hash_tag(case["key"]))
    probs = [make_A(6, 2, 2.0, fill), make_A(16, 12, 50.0, fill), make_A(5, 3, 2.0, fill), make_A(14, 10, 100.0, fill), make_A(4, 1, 1.0, fill)]
    fails, states = [], []
    nconv = evals = 0
    for sd in range(2):
        if cls == "cgne":
            solver = sv.CGNEQSolver(tol=tol, max_iter=budget, preconditioner_rank=0, seed=sd)
            fn = solver.compute
        elif cls == "col":
            solver = sv.RandomizedSketchProjectPseudoinverse(block_size=3, max_iter=budget * 4, tol=tol, test_sketch_size=8, seed=sd)
            fn = solver.compute_column_variant
        else:
            solver = sv.HybridRSPNewtonSchulz(r=2, p=2, T=3, tol=tol, max_iter=budget * 2, seed=sd)
            fn = solver.compute
        for ci, (A, vals) in enumerate(probs):
            tags = {"ep": "reuse", "cls": cls, "budget": budget, "seed": sd, "call": ci}
            n = A.shape[1]
            ok, res = call(fn, G.to_quat(A))
            evals += 1
            if not ok:
                fails.append(fail("raised", f"call {ci}: {type(res).__name__}: {res}", **tags))
                continue
            Xq, info = res
            X = G.from_quat(Xq)
            hist = list(info.get("residual_norms", []))
            conv = bool(info.get("converged"))
            states.append(digest(case["key"], sd, ci, len(hist), conv))
            if conv != bool(hist and hist[-1] <= tol):
                fails.append(fail("converged<=>last_residual<=tol", f"call {ci} on a reused {type(solver).__name__}: converged={conv} history[-1]={hist[-1] if hist else None} tol={tol}", **tags))
            if conv:
                nconv += 1
                eN = O.fro(O.qmatmul(X, A) - O.qeye(n)) / math.sqrt(n)
                # generous: 1e3*tol (exact for CGNE, which reports the true residual; proxy-based for the randomized ones)
                if not O.is_finite(X) or eN > 1e3 * tol:
                    fails.append(fail("converged=>true_residual_bounded", f"call {ci} on a reused {type(solver).__name__}: converged=True but ||XA-I||/sqrt(n) = {eN:.3e} (tol={tol})", **tags))
    return {"key": case["key"], "fails": fails[:24], "evals": evals, "nontrivial_n": nconv, "states": states, "transitions": evals, "traces": evals,
            "digest": case["key"], "path": f"reuse-{cls},converged={nconv}/{evals}", "obs": [nconv, [f["clause"] for f in fails]], "ratio_max": None}


def run_case(case, seed):
    if case["ep"] == "reuse":
        return run_reuse(case, seed)
    lib = load()
    sv = lib.solver
    fb0 = _FALLBACK["n"]
    m, n, tol = case["m"], case["n"], case["tol"]
    ep = case["ep"]
    fill = G.Fill(seed, stream=hash_tag(f"{m}x{n}/{case['cond']}"))
    A, vals = make_A(m, n, case["cond"], fill)
    if case.get("rs"):
        axis, idx, e = case["rs"]
        if axis == "row":
            A[idx] = np.ldexp(A[idx], e)
        else:
            A[:, idx] = np.ldexp(A[:, idx], e)
        vals = [float(v) for v in O.svals(A)]
    Aq = G.to_quat(A)
    Aplus = O.pinv(A)
    nAp2 = 1.0 / min(vals)
    condA = max(vals) / min(vals)
    S = 1 if case.get("S1") else case.get("S", 4)
    MAXIT = case.get("MAXIT", 200)
    fails = []
    evals = 0
    nconv = 0
    transitions = 0
    states = []
    ratios = []
    for sd in range(S):
        tags = {"ep": ep, "m": m, "n": n, "cond": case["cond"], "tol": tol, "seed": sd}
        before = Aq.tobytes()
        # regenerate the test sketch FIRST (this consumes the global stream); the constructor
        # below re-seeds, so the solver's own run starts from the same stream position
        if ep in ("col", "row", "auto"):
            left = ep == "col" or (ep == "auto" and m >= n)
            Pi = regen_sketch(sd, n if left else m, 8)
            solver = sv.RandomizedSketchProjectPseudoinverse(block_size=case["bs"], max_iter=MAXIT, tol=tol, test_sketch_size=8, seed=sd, column_solver=case["cs"])
            fn = {"col": solver.compute_column_variant, "row": solver.compute_row_variant, "auto": solver.compute}[ep]
        elif ep == "hyb":
            left = True
            Pi = regen_sketch(sd, n, min(6, n))
            solver = sv.HybridRSPNewtonSchulz(r=case["r"], p=case["p"], T=case["T"], tol=tol, max_iter=MAXIT, seed=sd, column_solver=case["cs"])
            fn = solver.compute
        else:
            solver = sv.CGNEQSolver(tol=tol, max_iter=500, preconditioner_rank=case["pr"], seed=sd)
            fn = solver.compute
            left = True
            Pi = None
        ok, res = call(fn, Aq)
        evals += 1
        if sd == 0 and ok and not case.get("large"):
            # verbose=True must not change the computation
            if ep in ("col", "row", "auto"):
                sv_ = sv.RandomizedSketchProjectPseudoinverse(block_size=case["bs"], max_iter=MAXIT, tol=tol, test_sketch_size=8, seed=sd, column_solver=case["cs"], verbose=True)
                fv = {"col": sv_.compute_column_variant, "row": sv_.compute_row_variant, "auto": sv_.compute}[ep]
            elif ep == "hyb":
                fv = sv.HybridRSPNewtonSchulz(r=case["r"], p=case["p"], T=case["T"], tol=tol, max_iter=MAXIT, seed=sd, column_solver=case["cs"], verbose=True).compute
            else:
                fv = sv.CGNEQSolver(tol=tol, max_iter=500, preconditioner_rank=case["pr"], seed=sd, verbose=True).compute
            okv, rv = quiet_call(fv, Aq)
            if not okv or canon_value(rv) != canon_value(res):
                fails.append(fail("verbose_changes_result", f"verbose=True {'raises ' + repr(rv) if not okv else 'returns a different value'}", **tags))
        if Aq.tobytes() != before:
            fails.append(fail("input_unchanged", "argument modified", **tags))
        if not ok:
            fails.append(fail("raised", f"seed {sd}: {type(res).__name__}: {res}", **tags))
            continue
        Xq, info = res
        X = G.from_quat(Xq)
        hist = list(info.get("residual_norms", []))
        conv = bool(info.get("converged"))
        its = info.get("iterations", info.get("iterations_rsp"))
        transitions += len(hist)
        states.append(digest(case["key"], sd, len(hist), conv))
        if X.shape[:2] != (n, m):
            fails.append(fail("shape", f"X{X.shape[:2]} expected {(n, m)}", **tags))
            continue
        if "iterations" in info and info["iterations"] != len(hist):
            fails.append(fail("iterations=len(history)", f"{info['iterations']} vs {len(hist)}", **tags))
        if conv != bool(hist and hist[-1] <= tol):
            fails.append(fail("converged<=>last_residual<=tol", f"converged={conv} history[-1]={hist[-1] if hist else None} tol={tol}", **tags))
        if not O.is_finite(X):
            if conv:
                fails.append(fail("converged=>finite", "converged with a non-finite X", **tags))
            continue
        kdim = n if left else m
        E = (O.qmatmul(X, A) if left else O.qmatmul(A, X)) - O.qeye(kdim)
        eN = O.fro(E) / math.sqrt(kdim)
        if ep == "cgne":
            if hist:
                if abs(hist[-1] - eN) > 1e-9 * max(1.0, condA) * max(eN, 1e-300) + 1e-13 * condA:
                    fails.append(fail("reported_residual=true_residual", f"history[-1]={hist[-1]!r} true ||I-XA||/sqrt(n)={eN!r}", **tags))
                if case["pr"] == 0:
                    if any(hist[i + 1] > hist[i] * (1 + 1e-9) + 1e-15 for i in range(len(hist) - 1)):
                        fails.append(fail("cgne_residual_nonincreasing", f"history={hist[:8]}...", **tags))
                    if not conv:
                        fails.append(fail("cgne_converges_within_budget", f"cond={condA:.0f} tol={tol}: not converged after {len(hist)} iterations (last {hist[-1]:.3e})", **tags))
            if conv:
                nconv += 1
                err = O.fro(X - Aplus)
                if err > nAp2 * tol * math.sqrt(n) * (1 + 1e-6) + 1e-12 * condA * nAp2:
                    fails.append(fail("converged=>pinv_accuracy", f"||X-A^+||={err:.3e} > ||A^+|| tol sqrt(n) = {nAp2 * tol * math.sqrt(n):.3e}", **tags))
            continue
        # randomized solvers: sound bound through the regenerated test sketch
        nPi = O.fro(Pi)
        prox = O.fro(Pi - (O.qmatmul(X, O.qmatmul(A, Pi)) if left else O.qmatmul(A, O.qmatmul(X, Pi)))) / nPi
        if hist and abs(hist[-1] - prox) > 1e-8 * max(prox, 1e-300) + 1e-12 * condA:
            fails.append(fail("history_belongs_to_returned_iterate", f"history[-1]={hist[-1]!r}, proxy recomputed from the returned X = {prox!r}", **tags))
        if conv:
            nconv += 1
            sm = smin(Pi) if Pi.shape[1] >= Pi.shape[0] else 0.0
            bound = tol * nPi / (sm * math.sqrt(kdim)) if sm > 0 else math.inf
            if case.get("large") and not math.isfinite(bound):
                # the test sketch has fewer columns than rows: no sure bound exists; for a sketch that is
                # independent of the iterate E Pi small implies E small except with negligible probability.
                # Seeds are enumerated, so this is a deterministic statement about these traces: measured
                # ratios ||E||/(sqrt(n) tol) on the pinned tree are <= 3; a sketch correlated with the
                # iterate (e.g. the update sketch equal to the test sketch) gives ratios ~1e5.
                bound = 1e3 * tol
                ratios.append(eN / tol)
            if eN > bound * (1 + 1e-6) + 1e-12 * condA:
                fails.append(fail("converged=>true_residual_bounded", f"||E||/sqrt(n) = {eN:.3e} > sound bound {bound:.3e} (tol={tol})", **tags))
            err = O.fro(X - Aplus)
            if err > nAp2 * bound * math.sqrt(kdim) * (1 + 1e-6) + 1e-11 * condA * nAp2:
                fails.append(fail("converged=>pinv_accuracy", f"||X-A^+||={err:.3e} > ||A^+||_2 * bound = {nAp2 * bound * math.sqrt(kdim):.3e}", **tags))
        if sd == 1 and ep in ("col", "row", "auto", "hyb") and len(hist) >= 2 and case.get("bs", case.get("r", 1)) < min(m, n):
            if _first_hist.get(case["key"]) == hist:
                fails.append(fail("seed_not_used", "constructor seeds 0 and 1 give the same residual history although the sketches are random", **tags))
        if sd == 0:
            _first_hist[case["key"]] = list(hist)
        # same seed twice -> identical
        if sd == 0:
            if ep in ("col", "row", "auto"):
                solver2 = sv.RandomizedSketchProjectPseudoinverse(block_size=case["bs"], max_iter=MAXIT, tol=tol, test_sketch_size=8, seed=sd, column_solver=case["cs"])
                fn2 = {"col": solver2.compute_column_variant, "row": solver2.compute_row_variant, "auto": solver2.compute}[ep]
            else:
                solver2 = sv.HybridRSPNewtonSchulz(r=case["r"], p=case["p"], T=case["T"], tol=tol, max_iter=MAXIT, seed=sd, column_solver=case["cs"])
                fn2 = solver2.compute
            ok2, res2 = call(fn2, Aq)
            if not ok2 or G.from_quat(res2[0]).tobytes() != X.tobytes() or list(res2[1].get("residual_norms", [])) != hist:
                fails.append(fail("same_seed_same_trace", "two runs with the same constructor seed differ", **tags))
    return {
        "key": case["key"],
        "fails": fails[:24],
        "evals": evals,
        "nontrivial_n": nconv,
        "states": states,
        "transitions": max(transitions, 1),
        "traces": evals - len({f["tags"].get("seed") for f in fails}),
        "digest": digest(A, case["key"]),
        "path": f"{ep},converged={nconv}/{evals},ns_fallback={'yes' if _FALLBACK['n'] > fb0 else 'no'}",
        "obs": [nconv, [f["clause"] for f in fails]],
        "ratio_max": max(ratios) if ratios else None,
    }


def summarize(results):
    conv = sum(int(r.get("nontrivial_n", 0)) for r in results)
    runs = sum(int(r.get("evals", 0)) for r in results)
    rm = [r["ratio_max"] for r in results if r.get("ratio_max") is not None]
    return {"runs": runs, "runs_converged": conv, "runs_capped_not_converged": runs - conv,
            "large_cells_max_true_residual_over_tol": max(rm) if rm else None}
