"""C05 — Q-SVD: true singular values, unitary factors, exact and optimal reconstruction.

Space: shape x every rank x every composition of the rank into clusters of equal singular
values (all multiplicity patterns) x factor kind x entry point (full, truncated R=1..p).
"""
from __future__ import annotations

import itertools

import numpy as np

from checks import specgen as SG
from checks.common import hash_tag, relayout, xf_build, xf_names, canonical_probes, hermitian_exact_zero, si_cells
from qmc import gen as G
from qmc import oracle as O
from qmc.loader import load
from qmc.run import call, digest, fail

ID = "C05"
LEVEL = "model_checking"
RULE = (
    "cases = shape (m,n) x spectrum (rank, composition into clusters, trailing zeros) x factor kind x entry point "
    "(classical_qsvd_full | classical_qsvd R=1..min(m,n)); non-trivial = rank >= 1; distinct = sha1(input bytes, entry, R)"
)
BOUNDS = {
    "quick": "m,n<=4, all 2^(p-1)-type compositions for every rank 0..p, values {4,2,1,1/2}, factors id/monomial/Householder, R=1..p; exhaustive small-integer cells: all 2x2 over {0,1,-1,i,j,k}, 3x3 over {-1,0,1} (every 4th), 2x3/3x2 over {0,1,i,j} (every 4th); steep spectra (s_2/s_1 in {2^-10,1.05e-5,2^-20,1e-4}) on 12x8, 8x12, 9x9, 16x8, 20x12 with R=1..3; xf tinysub / linedep variants",
    "thorough": "m,n<=6, values {4,2,1,1/2,1/4}, 3 fill rows; exhaustive small-integer cells in full (2x2 over {0,1,-1,i,j,k}, 3x3 over {-1,0,1}, 2x3/3x2 over {0,1,i,j}) and 3x3 over {-1,0,1,2} (every 16th)",
}
THOROUGH_STREAMS = 8
WALL_BUDGET = {"quick": 300, "thorough": 2400}
ASSUMPTIONS = ["expected singular values are the prescribed ones (inputs are built as U diag(s) V^H from exactly/numerically unitary factors)"]



def _dedupe(cases_):
    """the same cell can be listed by two enumerations (e.g. a tall shape that the thorough bound also reaches): keep the first."""
    seen, out_ = set(), []
    for c in cases_:
        if c["key"] not in seen:
            seen.add(c["key"])
            out_.append(c)
    return out_


def cases(tier, seed):
    S = 4 if tier == "quick" else 6
    rows = 1 if tier == "quick" else 3
    out = []
    for m, n in itertools.product(range(1, S + 1), repeat=2):
        p = min(m, n)
        for vals, comp, r in SG.spectra(p):
            for kU, kV in SG.FACTOR_KINDS:
                for row in range(rows):
                    if row > 0 and kU != "hh":
                        continue
                    base = f"{m}x{n}/r={r}/c={'-'.join(map(str, comp)) or '0'}/{kU}/row={row}"
                    out.append({"key": f"full/{base}", "entry": "classical_qsvd_full", "m": m, "n": n, "vals": vals, "kU": kU, "kV": kV, "row": row, "R": None})
                    if kU == "hh" and row == 0 and r == p and comp == (1,) * p and p >= 2 and m == n:
                        # graded spectrum (condition number up to 2^40, gaps >= 2^-41 in absolute terms): small but well-resolved
                        # singular values must survive.  Square inputs only: for m != n the smallest value would sit next to the
                        # null space and the singular vectors would be ill-determined.
                        gv = [1.0, 2.0 ** -8, 2.0 ** -16, 2.0 ** -24, 2.0 ** -32, 2.0 ** -40][:p]
                        out.append({"key": f"full/{base}/graded", "entry": "classical_qsvd_full", "m": m, "n": n, "vals": gv, "kU": kU, "kV": kV, "row": row, "R": None})
                        for R in range(1, p + 1):
                            out.append({"key": f"trunc/{base}/graded/R={R}", "entry": "classical_qsvd", "m": m, "n": n, "vals": gv, "kU": kU, "kV": kV, "row": row, "R": R})
                    if kU == "hh" and row == 0 and r == p and comp == (1,) * p:
                        for lay in ("F", "T", "view", "ro"):
                            out.append({"key": f"full/{base}/layout={lay}", "entry": "classical_qsvd_full", "m": m, "n": n, "vals": vals, "kU": kU, "kV": kV, "row": row, "R": None, "lay": lay})
                    if kU == "hh" and row == 0 and r >= 1:
                        for e in (-50, 40):  # whole-matrix scalings ~1e-15, 1e12
                            out.append({"key": f"full/{base}/scale=2^{e}", "entry": "classical_qsvd_full", "m": m, "n": n, "vals": vals, "kU": kU, "kV": kV, "row": row, "R": None, "scale": e})
                            out.append({"key": f"trunc/{base}/R=1/scale=2^{e}", "entry": "classical_qsvd", "m": m, "n": n, "vals": vals, "kU": kU, "kV": kV, "row": row, "R": 1, "scale": e})
                    for R in range(1, p + 1):
                        out.append({"key": f"trunc/{base}/R={R}", "entry": "classical_qsvd", "m": m, "n": n, "vals": vals, "kU": kU, "kV": kV, "row": row, "R": R})
    # component-support masks: integer entries confined to span of a subset of {1,i,j,k}; spectrum from the oracle
    for m, n in ((2, 2), (3, 3), (3, 2), (2, 3), (4, 4)):
        for mask in G.COMPONENT_MASKS:
            out.append({"key": f"full/mask/{m}x{n}/{G.mask_name(mask)}", "entry": "classical_qsvd_full", "m": m, "n": n, "vals": None, "kU": "mask", "kV": "mask", "row": 0, "R": None, "mask": mask})
            out.append({"key": f"trunc/mask/{m}x{n}/{G.mask_name(mask)}/R=1", "entry": "classical_qsvd", "m": m, "n": n, "vals": None, "kU": "mask", "kV": "mask", "row": 0, "R": 1, "mask": mask})
    # unusual-but-legal variants (component supports, ties, gradings, circulant/Toeplitz, special matrices, layouts); spectrum from the oracle
    for m, n in list(itertools.product(range(1, 5), repeat=2)) + [(8, 2), (12, 3), (13, 3), (16, 4), (3, 12), (20, 5)]:
        for nm in xf_names(m, n):
            if nm in ("rowgraded", "colgraded"):
                continue  # graded rectangular spectra: vectors ill-determined (DESIGN section 8 item 13)
            out.append({"key": f"full/xf/{m}x{n}/{nm}", "entry": "classical_qsvd_full", "m": m, "n": n, "vals": None, "kU": "mask", "kV": "mask", "row": 0, "R": None, "xf": nm})
            for R in sorted({1, min(m, n)}):
                out.append({"key": f"trunc/xf/{m}x{n}/{nm}/R={R}", "entry": "classical_qsvd", "m": m, "n": n, "vals": None, "kU": "mask", "kV": "mask", "row": 0, "R": R, "xf": nm})
    # exhaustive small-integer matrices (every matrix over a small alphabet: exact ties, exact dependencies, exactly invariant subspaces)
    for m, n, names in si_cells(tier):
        for nm in names:
            out.append({"key": f"full/si/{m}x{n}/{nm}", "entry": "classical_qsvd_full", "m": m, "n": n, "vals": None, "kU": "mask", "kV": "mask", "row": 0, "R": None, "xf": nm, "_fixed": True})
            out.append({"key": f"trunc/si/{m}x{n}/{nm}/R=1", "entry": "classical_qsvd", "m": m, "n": n, "vals": None, "kU": "mask", "kV": "mask", "row": 0, "R": 1, "xf": nm, "_fixed": True})
    # distinct singular values that are very close (relative gaps 3e-6 .. 2^-20), and values sitting just above float32 / float16
    # rounding midpoints relative to sigma_1 (a grouping of the 4-fold copies in reduced precision splits or merges them)
    SPECIAL_SPECTRA = {
        "close3": [1.0, 1.0 - 3e-6, 0.5], "close4": [2.0, 2.0 - 8e-6, 2.0 - 1.6e-5, 1.0], "close2p20": [1.0, 1.0 - 2.0 ** -20, 1.0 - 2.0 ** -19, 0.25],
        "f32mid": [1.0, 0.75 + 2.0 ** -25, 0.5 + 2.0 ** -25, 0.3125 + 2.0 ** -26], "f16mid": [1.0, 0.75 + 2.0 ** -12, 0.5 + 2.0 ** -12, 0.3125 + 2.0 ** -13],
        "f32mid_below": [1.0, 0.75 + 2.0 ** -25 - 2.0 ** -52, 0.5 + 2.0 ** -25 - 2.0 ** -53, 0.3125 + 2.0 ** -26 + 2.0 ** -54],
    }
    for sname, sv_ in SPECIAL_SPECTRA.items():
        p_ = len(sv_)
        for (m, n) in ((p_, p_), (p_ + 2, p_), (p_, p_ + 1), (p_ + 4, p_ + 2)):
            vals_ = sv_ + [0.0] * (min(m, n) - p_)
            out.append({"key": f"full/{sname}/{m}x{n}", "entry": "classical_qsvd_full", "m": m, "n": n, "vals": vals_, "kU": "hh", "kV": "hh", "row": 0, "R": None})
            for R in range(1, p_ + 1):
                out.append({"key": f"trunc/{sname}/{m}x{n}/R={R}", "entry": "classical_qsvd", "m": m, "n": n, "vals": vals_, "kU": "hh", "kV": "hh", "row": 0, "R": R})
    # steep leading decay on inputs with min(m,n) >= 8, small truncation ranks (4R <= min(m,n)): s_R / s_1 between 1e-3 and 1e-6, all values
    # distinct; a method that works on the Gram matrix squares these ratios and loses the R-th direction's orthogonality
    for si_, lead in enumerate((2.0 ** -10, 1.05e-5, 2.0 ** -20, 1e-4)):
        for (m, n) in ((12, 8), (8, 12), (9, 9), (16, 8), (20, 12)):
            p_ = min(m, n)
            vals_ = [1.0] + [lead * 0.5 ** t * (1.0 + 0.0625 * t) for t in range(p_ - 1)]
            for R in (1, 2, 3):
                if 4 * R <= p_ or R == 3:
                    out.append({"key": f"trunc/steep{si_}/{m}x{n}/R={R}", "entry": "classical_qsvd", "m": m, "n": n, "vals": vals_, "kU": "hh", "kV": "hh", "row": 0, "R": R})
            out.append({"key": f"full/steep{si_}/{m}x{n}", "entry": "classical_qsvd_full", "m": m, "n": n, "vals": vals_, "kU": "hh", "kV": "hh", "row": 0, "R": None})
    # rectangular inputs whose column (row) space contains a canonical fixed probe vector: first column = probe (tall), first row = probe^H (wide)
    for (m, n) in ((4, 3), (6, 5), (3, 4), (5, 6), (5, 3), (3, 5)):
        for pi_ in range(16):
            out.append({"key": f"full/probe/{m}x{n}/p={pi_}", "entry": "classical_qsvd_full", "m": m, "n": n, "vals": None, "kU": "mask", "kV": "mask", "row": 0, "R": None, "probe": pi_})
    # exactly Hermitian inputs with one EXACT zero eigenvalue (nullity 1, simple non-zero singular values for the Gram kinds)
    for n_ in (8, 9, 12, 32, 33):
        for where in ("last", "first", "diag"):
            out.append({"key": f"full/exactzero/n={n_}/{where}", "entry": "classical_qsvd_full", "m": n_, "n": n_, "vals": None, "kU": "mask", "kV": "mask", "row": 0, "R": None, "ez": where})
            out.append({"key": f"trunc/exactzero/n={n_}/{where}/R={n_ - 1}", "entry": "classical_qsvd", "m": n_, "n": n_, "vals": None, "kU": "mask", "kV": "mask", "row": 0, "R": n_ - 1, "ez": where})
    # enumerated list of larger shapes, simple spectra
    for (m, n) in ((9, 7), (7, 9), (12, 12), (17, 5), (5, 17), (33, 2), (2, 33)):
        p = min(m, n)
        vals = [float(2.0 ** (2 - t)) for t in range(p)]
        out.append({"key": f"full/large/{m}x{n}", "entry": "classical_qsvd_full", "m": m, "n": n, "vals": vals, "kU": "hh", "kV": "hh", "row": 0, "R": None})
        for R in sorted({1, p // 2 + 1, p}):
            out.append({"key": f"trunc/large/{m}x{n}/R={R}", "entry": "classical_qsvd", "m": m, "n": n, "vals": vals, "kU": "hh", "kV": "hh", "row": 0, "R": R})
    return _dedupe(out)


def run_case(case, seed):
    lib = load()
    m, n, vals, R = case["m"], case["n"], case["vals"], case["R"]
    p = min(m, n)
    fill = G.Fill(seed + 31 * case["row"], stream=hash_tag(f"{m}x{n}/{case['kU']}/{case['row']}"))
    if case.get("mask") or case.get("xf") or case.get("probe") is not None or case.get("ez"):
        if case.get("ez"):
            A = hermitian_exact_zero(m, case["ez"], fill)
        elif case.get("probe") is not None:
            A = fill.quat(m, n, bits=4, lo=-24, hi=24)
            pname, g = canonical_probes(max(m, n))[case["probe"]]
            if m > n:
                A[:, 0:1] = g
            else:
                A[0:1, :] = O.qH(g)
        elif case.get("xf"):
            A, lay_ = xf_build(case["xf"], m, n, fill)
            case = dict(case, lay=lay_)
        else:
            B_ = fill.quat_int(m, n, -4, 4).astype(float)
            B_[B_ == 0] = 2.0
            A = G.apply_component_mask(B_, case["mask"])
        sv_ = O.svals(A)
        vals = [float(v) if v > 1e-12 * max(sv_[0], 1.0) else 0.0 for v in sv_]
        # treat numerically coincident values as one cluster
        for t in range(1, len(vals)):
            if vals[t] > 0 and abs(vals[t] - vals[t - 1]) <= 1e-13 * vals[0]:  # rounding-level coincidence only; close-but-distinct values keep their own expected value (gap-aware budgets below)
                vals[t] = vals[t - 1]
    else:
        A, Uq, Vq = SG.build(m, n, vals, case["kU"], case["kV"], fill, variant=len(vals) + int(sum(vals) * 4))
    if case.get("scale"):
        A = np.ldexp(A, case["scale"])
        vals = [float(np.ldexp(v, case["scale"])) for v in vals]
    info = SG.cluster_info(vals, m, n)
    degenerate = SG.degenerate_within(vals, m, n, R)
    tags = {"entry": case["entry"], "degenerate": degenerate, "factors": "hh" if case["kU"] == "mask" else case["kU"], **info}
    Aq = relayout(G.to_quat(A), case.get("lay", "C"))
    before = Aq.tobytes()
    if R is None:
        ok, res = call(lib.qsvd.classical_qsvd_full, Aq)
    else:
        ok, res = call(lib.qsvd.classical_qsvd, Aq, R)
    fails = []
    nA = max(O.fro(A), 1.0) if not case.get("scale") else O.fro(A)
    bud = O.budget(nA, dims=4 * max(m, n))
    nzv = sorted({v for v in vals if v > 0}, reverse=True)
    if R is not None:
        nzv = nzv[: int(R) + 1]  # truncated factors: only the gaps around the kept values matter
    gap_rel = min(((a - b) / nzv[0] for a, b in zip(nzv, nzv[1:])), default=1.0)
    if gap_rel < 2.0 ** -6:
        # close (not equal) singular values: the contraction of the real singular vectors loses accuracy like u * sigma_1 / gap - the
        # continuous extension of finding qsvd-contraction-degenerate; these cells decide gross errors (a merged / split / shifted group)
        bud = bud * (2.0 ** -6 / gap_rel)
    if not ok:
        fails.append(fail("raised", f"{type(res).__name__}: {res}", **tags))
    else:
        U, s, V = res
        U = G.from_quat(U)
        V = G.from_quat(V)
        s = np.asarray(s, float)
        k = p if R is None else R
        eU = (m, m) if R is None else (m, R)
        eV = (n, n) if R is None else (n, R)
        if U.shape[:2] != eU or V.shape[:2] != eV or s.shape != (k,):
            fails.append(fail("shapes", f"U{U.shape[:2]} s{s.shape} V{V.shape[:2]} expected {eU} ({k},) {eV}", **tags))
        else:
            exp = np.array(vals[:k])
            if np.any(s < -bud) or np.any(np.diff(s) > bud):
                fails.append(fail("s_nonneg_nonincreasing", f"s={s.tolist()}", **tags))
            if np.max(np.abs(s - exp), initial=0.0) > bud:
                fails.append(fail("singular_values", f"s={s.tolist()} expected {exp.tolist()}", **tags))
            dU = O.unitarity_defect(U)
            dV = O.unitarity_defect(V)
            # singular vectors are determined only up to u * sigma_max / gap: scale the budget when the spectrum is graded
            dv = sorted(set(vals + ([0.0] if m != n else [])), reverse=True)
            if case.get("R") is not None and case["entry"] == "classical_qsvd":
                dv = dv[: int(case["R"]) + 1]  # truncated factors: only the gaps around the kept values limit the accuracy of the kept vectors
            gap_min = min((a - b for a, b in zip(dv, dv[1:])), default=max(dv[0], 1.0)) if len(dv) > 1 else max(dv[0], 1.0)
            tol_u = O.budget(1.0, dims=16 * max(m, n)) * max(1.0, 2.0 ** -10 * (dv[0] / gap_min if gap_min > 0 else 1.0), (2.0 ** -6 / gap_rel) if gap_rel < 2.0 ** -6 else 1.0)
            if dU > tol_u:
                fails.append(fail("U_orthonormal", f"||U^H U - I||_F = {dU:.3e}", **tags))
            if dV > tol_u:
                fails.append(fail("V_orthonormal", f"||V^H V - I||_F = {dV:.3e}", **tags))
            D = G.diag_real(s, U.shape[1], V.shape[1])
            rec = O.qmatmul(O.qmatmul(U, D), O.qH(V))
            err = O.fro(A - rec)
            opt = float(np.sqrt(sum(v * v for v in vals[k:])))
            if R is None:
                if err > bud:
                    fails.append(fail("reconstruction", f"||A - U S V^H||_F = {err:.3e}", **tags))
            else:
                if abs(err - opt) > bud + 1e-7 * opt and abs(err * err - opt * opt) > bud:
                    fails.append(fail("eckart_young", f"||A - U_R S_R V_R^H||_F = {err!r}, optimum {opt!r}", **tags))
    if Aq.tobytes() != before:
        fails.append(fail("input_unchanged", "argument modified", **tags))
    return {
        "key": case["key"],
        "fails": fails,
        "nontrivial": info["rank"] >= 1,
        "digest": digest(A, case["entry"], R),
        "path": f"mult={info['max_mult']},nullR={min(info['null_right'], 2)},nullL={min(info['null_left'], 2)},deg={int(degenerate)}",
        "obs": [f["clause"] for f in fails],
        "sample": {"vals": vals, "entry": case["entry"], "R": R},
    }
