"""C06 — quaternion QR reproduces A with orthonormal Q and triangular R for every shape."""
from __future__ import annotations

import itertools
import math

import numpy as np

from checks.common import hash_tag, relayout, xf_build, xf_names, si_cells
from qmc import gen as G
from qmc import oracle as O
from qmc.loader import load
from qmc.run import call, digest, fail

ID = "C06"
LEVEL = "model_checking"
RULE = (
    "cases = shape (m,n) x entry class x (zero-column bit mask | duplicated-column position | low-rank product); "
    "non-trivial = A non-zero; distinct = sha1(input bytes)"
)
BOUNDS = {
    "quick": "m,n<=4 (tall, square, wide, m=1); all 2^n zero-column masks x 5 entry classes; every duplicated-column pair; ranks 0..min via products; exhaustive small-integer cells: all 2x2 over {0,1,-1,i,j,k}, 3x3 over {-1,0,1} (every 4th), 2x3/3x2 over {0,1,i,j} (every 4th); component-masked (real, complex, single-axis) inputs 20x16, 16x16, 12x24, 33x8, 40x25 x zero-column sets; xf tinysub / linedep variants",
    "thorough": "m,n<=6, 3 fill rows; exhaustive small-integer cells in full (2x2 over {0,1,-1,i,j,k}, 3x3 over {-1,0,1}, 2x3/3x2 over {0,1,i,j}) and 3x3 over {-1,0,1,2} (every 16th)",
}
THOROUGH_STREAMS = 8
WALL_BUDGET = {"quick": 300, "thorough": 2400}
ASSUMPTIONS = ["clause oracle only (QR is unique up to phases): Q^H Q = I, R upper trapezoidal, A = QR to 2^10 u ||A||"]

CLASSES = ["ints", "pureimag", "q8", "imagdiag", "generic"]


def base_matrix(cls, m, n, fill):
    if cls == "ints":
        A = fill.quat_int(m, n, -3, 3).astype(float)
    elif cls == "pureimag":
        A = fill.quat_int(m, n, -3, 3).astype(float)
        A[..., 0] = 0.0
    elif cls == "q8":
        idx = fill.ints((m, n), 0, 8)
        A = np.zeros((m, n, 4))
        for p_ in np.ndindex(m, n):
            A[p_] = G.Q8_LETTERS[idx[p_]]
    elif cls == "imagdiag":
        # Q0 * R0 with Q0 monomial and R0 upper triangular whose diagonal is pure imaginary
        k = min(m, n)
        Q0 = G.unitary("mono", m, None, variant=m + n)[:, :k]
        R0 = np.zeros((k, n, 4))
        for i in range(k):
            for j in range(i, n):
                R0[i, j] = fill.dyadic((4,), bits=1, lo=-4, hi=4)
            R0[i, i] = [0.0, 1.0 + i, 0.5, 0.0]
        A = O.qmatmul(Q0, R0)
    else:
        A = fill.quat(m, n, bits=5, lo=-60, hi=60)
    return A


def householder_steps(A):
    """Quaternion Householder QR without pivoting, simulated in the oracle's arithmetic: for each step j < min(m,n) the norm of the
    sub-column that the j-th reflector has to reduce (relative to ||A||_F) and whether it is EXACTLY zero (an exactly-zero
    sub-column stays exactly zero under every earlier reflector and needs no reflector; a negligible but non-zero one is where the
    real QR of the embedding stops being unique)."""
    W = np.array(A, dtype=float, copy=True)
    m, n, _ = W.shape
    scale = max(O.fro(W), 1e-300)
    out = []
    for j in range(min(m, n)):
        x = W[j:, j : j + 1]
        nx = O.fro(x)
        out.append((nx / scale, not x.any()))
        if nx <= 1e-11 * scale or j == m - 1:
            continue
        x0 = x[0, 0]
        a0 = O.qabs(x0)
        phase = x0 / a0 if a0 > 0 else np.array([1.0, 0, 0, 0])
        u = x.copy()
        u[0, 0] = x0 + phase * nx
        nu2 = O.fro(u) ** 2
        if nu2 == 0:
            continue
        sub = W[j:, j:]
        W[j:, j:] = sub - (2.0 / nu2) * O.qmatmul(u, O.qmatmul(O.qH(u), sub))
    return out



def _dedupe(cases_):
    """the same cell can be listed by two enumerations (e.g. a tall shape that the thorough bound also reaches): keep the first."""
    seen, out_ = set(), []
    for c in cases_:
        if c["key"] not in seen:
            seen.add(c["key"])
            out_.append(c)
    return out_


def cases(tier, seed):
    S = 4 if tier == "quick" else 6
    rows = 1 if tier == "quick" else 3
    out = []
    for m, n in itertools.product(range(1, S + 1), repeat=2):
        for cls in CLASSES:
            for row in range(rows):
                for mask in range(1 << n):
                    out.append({"key": f"mask/{m}x{n}/{cls}/row={row}/z={mask:0{n}b}", "kind": "mask", "m": m, "n": n, "cls": cls, "row": row, "mask": mask})
                    if mask and cls in ("generic", "ints"):  # the same zero columns written as -0.0 (negated data, column * -0.0)
                        out.append({"key": f"mask/{m}x{n}/{cls}/row={row}/z={mask:0{n}b}/negzero", "kind": "mask", "m": m, "n": n, "cls": cls, "row": row, "mask": mask, "neg": 1})
                        out.append({"key": f"mask/{m}x{n}/{cls}/row={row}/z={mask:0{n}b}/mixzero", "kind": "mask", "m": m, "n": n, "cls": cls, "row": row, "mask": mask, "neg": 2})
                for a, b in itertools.combinations(range(n), 2):
                    out.append({"key": f"dup/{m}x{n}/{cls}/row={row}/{a}->{b}", "kind": "dup", "m": m, "n": n, "cls": cls, "row": row, "a": a, "b": b})
        for r in range(0, min(m, n) + 1):
            for row in range(rows):
                out.append({"key": f"lowrank/{m}x{n}/r={r}/row={row}", "kind": "lowrank", "m": m, "n": n, "r": r, "row": row})
        for lay in ("F", "T", "view", "ro"):  # same matrix, different memory layout
            out.append({"key": f"layout/{m}x{n}/{lay}", "kind": "layout", "m": m, "n": n, "cls": "generic", "row": 0, "lay": lay})
        # graded inputs: a tiny (2^-45 relative) but non-zero pivot in the middle of the elimination
        for kpos in range(min(m, n)):
            out.append({"key": f"graded-triu/{m}x{n}/k={kpos}", "kind": "graded", "sub": "triu", "m": m, "n": n, "cls": "generic", "row": 0, "kpos": kpos})
            out.append({"key": f"graded-col/{m}x{n}/k={kpos}", "kind": "graded", "sub": "col", "m": m, "n": n, "cls": "ints", "row": 0, "kpos": kpos})
        for nm in xf_names(m, n):  # unusual-but-legal variants (component supports, ties, gradings, circulant/Toeplitz, special matrices, layouts)
            out.append({"key": f"xf/{m}x{n}/{nm}", "kind": "xf", "m": m, "n": n, "cls": "generic", "row": 0, "xf": nm})
        for e in (-50, 40):
            out.append({"key": f"scaled/{m}x{n}/2^{e}", "kind": "scaled", "m": m, "n": n, "cls": "generic", "row": 0, "e": e})
            out.append({"key": f"scaled-zero-col/{m}x{n}/2^{e}", "kind": "scaled", "m": m, "n": n, "cls": "ints", "row": 0, "e": e, "zc": 0})
    # exhaustive small-integer matrices (every matrix over a small alphabet: exact ties, exact dependencies, exactly invariant subspaces)
    for m, n, names in si_cells(tier):
        for nm in names:
            out.append({"key": f"si/{m}x{n}/{nm}", "kind": "xf", "m": m, "n": n, "cls": "generic", "row": 0, "xf": nm, "_fixed": True})
    # enumerated list of larger shapes (blocked / panelled code paths), full rank and one zero column
    for (m, n) in ((9, 7), (7, 9), (12, 12), (17, 5), (5, 17), (65, 3), (3, 65), (1, 9), (9, 1)):
        out.append({"key": f"large/{m}x{n}", "kind": "layout", "m": m, "n": n, "cls": "generic", "row": 0, "lay": "C"})
        out.append({"key": f"large-zero-col/{m}x{n}", "kind": "scaled", "m": m, "n": n, "cls": "ints", "row": 0, "e": 0, "zc": min(2, n - 1)})
    # moderately large tall / square shapes with exactly-zero columns at several positions (n >= 17: sort / permutation code paths)
    for (m, n) in ((20, 17), (33, 33), (40, 25), (18, 18), (64, 20)):
        for zcs in ((0,), (2,), (n // 2,), (1, n // 2), (0, 5, n - 2)):
            out.append({"key": f"large-zero-cols/{m}x{n}/z={'-'.join(map(str, zcs))}", "kind": "scaled", "m": m, "n": n, "cls": "generic", "row": 0, "e": 0, "zcs": list(zcs)})
    # the same with entries restricted to a proper subset of the four components (real, complex, single imaginary axis): fast paths for
    # "really real / really complex" data on moderately large inputs, with and without exactly-zero columns
    for (m, n) in ((20, 16), (16, 16), (12, 24), (33, 8), (40, 25)):
        for mk in (1, 3, 4, 5, 8, 14):
            for zcs in ((), (2,), (0, n // 2)):
                out.append({"key": f"large-cmask/{m}x{n}/{G.mask_name(mk)}/z={'-'.join(map(str, zcs)) or 'none'}", "kind": "scaled", "m": m, "n": n, "cls": "generic", "row": 0, "e": 0,
                            "zcs": list(zcs), "cmask": mk})
    for (m, n) in ((8, 2), (9, 2), (12, 3), (16, 4), (40, 4), (17, 4), (4, 16), (5, 2), (7, 3), (9, 4), (6, 2), (10, 3)):
        for nm in ("nearcol", "negzero_col", "halfdep_top", "halfdep_bot", "twodeps", "depcol1", "allneg", "nearreal", "equalmod"):
            out.append({"key": f"xf/{m}x{n}/{nm}", "kind": "xf", "m": m, "n": n, "cls": "generic", "row": 0, "xf": nm})
    return _dedupe(out)


def run_case(case, seed):
    lib = load()
    m, n = case["m"], case["n"]
    fill = G.Fill(seed + 101 * case["row"], stream=hash_tag((case["key"].rsplit("/", 1)[0] if case.get("neg") else case["key"]).rsplit("/", 1)[0] if case["kind"] != "lowrank" else case["key"]))
    if case["kind"] == "lowrank":
        r = case["r"]
        if r == 0:
            A = np.zeros((m, n, 4))
        else:
            A = O.qmatmul(fill.quat(m, r, bits=2, lo=-6, hi=6), fill.quat(r, n, bits=2, lo=-6, hi=6))
    elif case["kind"] == "layout":
        A = base_matrix(case["cls"], m, n, fill)
    elif case["kind"] == "xf":
        A, lay_ = xf_build(case["xf"], m, n, fill)
        case = dict(case, lay=lay_)
    elif case["kind"] == "graded":
        A = base_matrix(case["cls"], m, n, fill)
        if case["sub"] == "triu":
            for i in range(m):
                A[i, : min(i, n)] = 0.0
                if i < n and not A[i, i].any():
                    A[i, i, 0] = 1.0
            A[case["kpos"], case["kpos"]] *= 2.0 ** -45
        else:
            if not A[:, case["kpos"]].any():
                A[0, case["kpos"], 0] = 1.0
            A[:, case["kpos"]] *= 2.0 ** -45
    elif case["kind"] == "scaled":
        A = np.ldexp(base_matrix(case["cls"], m, n, fill), case["e"])
        if "zc" in case:
            A[:, case["zc"]] = 0.0
        if case.get("cmask"):
            A = G.apply_component_mask(A, case["cmask"])
        for zc_ in case.get("zcs", ()):
            A[:, zc_] = 0.0
    else:
        A = base_matrix(case["cls"], m, n, fill)
        if case["kind"] == "mask":
            for j in range(n):
                if (case["mask"] >> j) & 1:
                    A[:, j] = (-0.0 if case["neg"] == 1 else A[:, j] * 0.0) if case.get("neg") else 0.0
        else:
            q = np.array([0.5, -1.0, 0.0, 2.0])
            A[:, case["b"]] = O.qmul(A[:, case["a"]], np.broadcast_to(q, (m, 4)))  # right multiple: same column space
    rk = O.rank(A)
    lead_rk = O.rank(A[:, : min(m, n)]) if A[:, : min(m, n)].size else 0
    k = min(m, n)
    nz_lead = sum(1 for j in range(k) if A[:, j].any())
    # (noisy_step: after exactly-zero columns have used up pivot rows, the REMAINING rows of the later columns can be dependent although
    #  the full columns are not - e.g. a zero first column and a singular trailing (m-1) x (n-1) block; same mechanism)
    # 'finding_zone': the leading columns are rank deficient in a way that makes the real QR non-unique AND
    # (as observed on the pinned tree) breaks the contraction: a dependency among NON-ZERO leading columns, or any
    # leading deficiency of a wide input.  Exactly-zero leading columns of tall/square inputs are handled correctly.
    lead_dep = nz_lead - lead_rk
    steps = householder_steps(A)
    # a negligible sub-column is harmless only if the whole INPUT column is exactly zero (then it stays exactly zero in any arithmetic);
    # a sub-column that vanishes through cancellation is noise in LAPACK's arithmetic even when this simulation gets an exact 0
    # (measured against the norm of the input column itself: a genuinely tiny column or pivot - graded inputs - is not noise)
    noisy_step = any((A[:, j].any() and rel * max(O.fro(A), 1e-300) <= 1e-10 * O.fro(A[:, j : j + 1])) for j, (rel, exact) in enumerate(steps))
    tags = {"wide": m < n, "coldef": n - rk, "rank": rk, "lead_def": k - lead_rk, "lead_dep": lead_dep,
            "finding_zone": bool(lead_dep >= 1 or (m < n and k - lead_rk >= 1) or noisy_step), "kind": case["kind"], "m": m, "n": n}
    sv_ = O.svals(A[:, :k]) if k else np.zeros(0)
    cond_lead = float(sv_[0] / sv_[-1]) if len(sv_) and sv_[-1] > 0 else float("inf")
    tags["illcond"] = bool(lead_rk == k and cond_lead >= 2.0 ** 10)
    Aq = relayout(G.to_quat(A), case.get("lay", "C"))
    before = Aq.tobytes()
    ok, res = call(lib.qsvd.qr_qua, Aq)
    fails = []
    nA = max(O.fro(A), 1e-300)
    if not ok:
        fails.append(fail("raised", f"{type(res).__name__}: {res}", **tags))
    else:
        Q, R = (G.from_quat(x) for x in res)
        if Q.shape[:2] != (m, k) or R.shape[:2] != (k, n):
            fails.append(fail("shapes", f"Q{Q.shape[:2]} R{R.shape[:2]} expected ({m},{k}) ({k},{n})", **tags))
        elif not (O.is_finite(Q) and O.is_finite(R)):
            fails.append(fail("finite", "non-finite factor", **tags))
        else:
            dQ = O.unitarity_defect(Q)
            if dQ > O.budget(1.0, dims=16 * max(m, n)):
                fails.append(fail("Q_orthonormal", f"||Q^H Q - I||_F = {dQ:.3e} (cond of the leading columns {cond_lead:.2e})", dQ_over_cond_u=(dQ / (cond_lead * O.U) if math.isfinite(cond_lead) else -1.0), **tags))
            low = max((O.qabs(R[i, j]) for i in range(k) for j in range(min(i, n))), default=0.0)
            if low > O.budget(nA, dims=4 * max(m, n)):
                fails.append(fail("R_upper", f"max |R_ij| below diagonal = {low:.3e}", **tags))
            err = O.fro(A - O.qmatmul(Q, R))
            if err > O.budget(nA, dims=16 * max(m, n)):
                fails.append(fail("A=QR", f"||A - QR||_F = {err:.3e} (||A||={nA:.3e}, cond of the leading columns {cond_lead:.2e})",
                                  dQ_over_cond_u=(err / (nA * cond_lead * O.U) if math.isfinite(cond_lead) else -1.0), **tags))
    if Aq.tobytes() != before:
        fails.append(fail("input_unchanged", "argument modified", **tags))
    return {
        "key": case["key"],
        "fails": fails,
        "nontrivial": bool(A.any()),
        "digest": digest(A),
        "path": f"{'wide' if m < n else ('square' if m == n else 'tall')},coldef={min(n - rk, 3)},leaddef={min(k - lead_rk, 2)}",
        "obs": [f["clause"] for f in fails],
        "sample": {"shape": [m, n], "rank": rk},
    }
