"""C18 — tensor unfold/fold and colour <-> quaternion mappings are lossless.

Model M.fold: unfold(T, n)[i_n, col] with col = C-order index of the remaining indices in
their original order (mode 0: (j,k); mode 1: (i,k); mode 2: (i,j)) — the library's documented
convention ("bring axis n front, reshape").  Entries are index-coded so every entry is unique.
The noise generator is owned through the rng seam (stub with a fixed unit-variance table).
"""
from __future__ import annotations

import itertools
import math

import numpy as np

from qmc import gen as G
from qmc.loader import load
from qmc.run import call, fail

ID = "C18"
LEVEL = "model_checking"
RULE = (
    "cases = tensor shape (I,J,K) x mode x input layout, image shape x value class, metric pairs, noise cells; "
    "non-trivial = more than one entry or non-zero data; distinct = case key (index-coded entries are unique per shape)"
)
BOUNDS = {
    "quick": "all shapes (I,J,K) in {1..4}^3 x modes 0..2 x 3 layouts; images H,W in {1..4} x 5 value classes x 3 real parts; psnr/relative_error on 6 pair kinds; add_awgn_snr: 4 snr x 8 shapes with a stub generator, and for images with at most 12 components the exact expectation over all 2^N sign streams; all 4^4 selections of channel views of one buffer; float32/float16 pairs below the precision of the squared difference",
    "thorough": "shapes up to 6^3, images up to 6x6",
}
THOROUGH_STREAMS = 8
WALL_BUDGET = {"quick": 120, "thorough": 600}
ASSUMPTIONS = ["quat_to_rgb's documented default clip=True is a post-processing step (values in [-0.5,1.5] are clipped to [0,1]); the inverse-mapping clause is checked with clip=False for every value range and with clip=True on [0,1] data",
               "relative_error with an all-zero reference is documented to return inf and is excluded from the 'zero iff equal' clause",
               "'SNR in expectation' is replaced by the exact identity sigma^2 = ||Q||^2/(snr*size), observed through a stub generator with an exactly unit-variance table"]


def coded_tensor(I, J, K):
    T = np.zeros((I, J, K, 4))
    for i, j, k in itertools.product(range(I), range(J), range(K)):
        T[i, j, k] = [(i + 1) + 16 * (j + 1) + 256 * (k + 1), -(i + 1), 0.5 * (j + 1), 0.25 * (k + 1) + 64 * (i + 1)]
    return T


def model_unfold(T, mode):
    I, J, K, _ = T.shape
    dims = (I, J, K)
    others = [a for a in range(3) if a != mode]
    rows = dims[mode]
    cols = dims[others[0]] * dims[others[1]]
    M = np.zeros((rows, cols, 4))
    for idx in itertools.product(range(I), range(J), range(K)):
        col = idx[others[0]] * dims[others[1]] + idx[others[1]]
        M[idx[mode], col] = T[idx]
    return M


class StubRng:
    """normal(0, sigma, size) = sigma * table, table has exactly mean 0 and variance 1."""

    def __init__(self):
        self.calls = []

    def normal(self, loc, scale, size=None):
        self.calls.append((loc, scale, tuple(size)))
        n = int(np.prod(size))
        t = np.ones(n)
        t[1::2] = -1.0
        if n % 2 == 1:  # keep mean 0, variance 1 exactly: last three entries a,-a/2... use +-sqrt(1.5),0 pattern
            t[-3:] = [math.sqrt(1.5), -math.sqrt(1.5), 0.0]
            if n == 1:
                t[:] = 1.0
        return loc + scale * t.reshape(size)


class SignRng:
    """normal(loc, scale, size) = loc + scale * (next entries of a +-1 stream given by the bits of an integer)."""

    def __init__(self, bits):
        self.bits, self.pos = bits, 0

    def normal(self, loc=0.0, scale=1.0, size=None):
        n = int(np.prod(size)) if size is not None else 1
        t = np.array([1.0 if (self.bits >> (self.pos + k)) & 1 else -1.0 for k in range(n)])
        self.pos += n
        out = loc + scale * t
        return out.reshape(size) if size is not None else float(out[0])

    def standard_normal(self, size=None):
        return self.normal(0.0, 1.0, size)


def cases(tier, seed):
    S = 4 if tier == "quick" else 6
    out = []
    for I, J, K in itertools.product(range(1, S + 1), repeat=3):
        for mode in range(3):
            for lay in ("C", "view", "F"):
                out.append({"key": f"fold/{I}x{J}x{K}/mode={mode}/{lay}", "grp": "fold", "shape": [I, J, K], "mode": mode, "lay": lay})
    for H, W in itertools.product(range(1, S + 1), repeat=2):
        out.append({"key": f"img/{H}x{W}", "grp": "img", "H": H, "W": W})
    out.append({"key": "metrics", "grp": "metrics"})
    for snr in (0, 10, 20, 40):
        for shp in ((1, 1), (1, 2), (2, 1), (1, 3), (2, 3), (4, 4), (3, 5), (1, 7)):
            out.append({"key": f"noise/snr={snr}/{shp[0]}x{shp[1]}", "grp": "noise", "snr": snr, "H": shp[0], "W": shp[1]})
    return out


def run_case(case, seed):
    lib = load()
    fails = []
    grp = case["grp"]
    evals = 0
    if grp == "fold":
        I, J, K = case["shape"]
        mode = case["mode"]
        T = coded_tensor(I, J, K)
        Tq = G.to_quat(T)
        if case["lay"] == "view":  # non-contiguous view of a bigger tensor
            big = np.zeros((I + 1, 2 * J, K + 2), dtype=np.quaternion)
            big[1:, ::2, 1:-1] = Tq
            Tq = big[1:, ::2, 1:-1]
        elif case["lay"] == "F":
            Tq = np.asfortranarray(Tq)
        before = G.from_quat(np.array(Tq)).tobytes()
        ok, M = call(lib.tensor.tensor_unfold, Tq, mode)
        evals += 1
        tags = {"grp": "fold", "mode": mode}
        if not ok:
            fails.append(fail("unfold_raised", f"{M}", **tags))
        else:
            exp = model_unfold(T, mode)
            got = G.from_quat(np.array(M))
            if got.shape != exp.shape:
                fails.append(fail("unfold_shape", f"{got.shape} vs {exp.shape}", **tags))
            elif not np.array_equal(got, exp):
                fails.append(fail("unfold_fibres", "mode-n fibres are not the columns of the unfolding (index-level definition)", **tags))
            ok2, Tb = call(lib.tensor.tensor_fold, M, mode, (I, J, K))
            evals += 1
            if not ok2:
                fails.append(fail("fold_raised", f"{Tb}", **tags))
            elif G.from_quat(np.array(Tb)).shape != T.shape or G.from_quat(np.array(Tb)).tobytes() != T.tobytes():
                fails.append(fail("fold_unfold_identity", "fold(unfold(T)) != T", **tags))
            # norms / moduli preserved exactly (a permutation of entries)
            n1 = lib.tensor.tensor_frobenius_norm(Tq)
            n2 = lib.tensor.tensor_frobenius_norm(M)
            a1 = np.sort(lib.tensor.tensor_entrywise_abs(Tq).reshape(-1))
            a2 = np.sort(lib.tensor.tensor_entrywise_abs(M).reshape(-1))
            if abs(n1 - n2) > 8 * 2 ** -53 * n1 or not np.array_equal(a1, a2):
                fails.append(fail("unfold_preserves_norm", f"{n1!r} vs {n2!r}", **tags))
            # fold of the model unfolding (fold checked independently of unfold)
            ok3, Tb2 = call(lib.tensor.tensor_fold, G.to_quat(exp), mode, (I, J, K))
            evals += 1
            if not ok3 or G.from_quat(np.array(Tb2)).tobytes() != T.tobytes():
                fails.append(fail("fold_definition", "fold(model unfolding) != T", **tags))
        if G.from_quat(np.array(Tq)).tobytes() != before:
            fails.append(fail("input_unchanged", "tensor_unfold modified its argument", **tags))
        nontrivial = I * J * K > 1
    elif grp == "img":
        H, W = case["H"], case["W"]
        q = lib.qslst
        fill = G.Fill(seed, stream=H * 16 + W)
        nontrivial = True
        for vcls in ("unit", "byte", "neg", "big", "zero", "weak_channel_hi", "weak_channel_lo", "edge_inside", "edge_outside_hi", "edge_outside_lo"):
            base = fill.dyadic((H, W, 3), bits=8, lo=0, hi=256)
            if vcls.startswith("weak_channel"):  # wide-range image with one weak channel that alone would "look normalised"
                base = np.floor(base * 255)
                weak = fill.dyadic((H, W), bits=8, lo=0, hi=256) * (1.4 if vcls.endswith("hi") else 0.4) - (0.0 if vcls.endswith("hi") else 0.3)
                weak.flat[0] = 1.4 if vcls.endswith("hi") else -0.3
                base[..., 2] = weak
                base[0, 0, 0] = 200.0
            elif vcls.startswith("edge"):  # the documented window [-0.5, 1.5] exactly, and just outside it
                base = base * 2.0 - 0.5
                base.flat[0] = 1.5 + (2.0 ** -20 if vcls == "edge_outside_hi" else 0.0)
                base.flat[-1] = -0.5 - (2.0 ** -20 if vcls == "edge_outside_lo" else 0.0)
            elif vcls == "byte":
                base = np.floor(base * 255)
            elif vcls == "neg":
                base = base - 3.0
            elif vcls == "big":
                base = base + 1.75
            elif vcls == "zero":
                base = base * 0
            for rp in (0.0, 1.0, -2.5):
                tags = {"grp": "img", "vcls": vcls}
                ok, Q = call(q.rgb_to_quat, base, rp)
                evals += 1
                if not ok:
                    fails.append(fail("rgb_to_quat_raised", f"{Q}", **tags))
                    continue
                if Q.shape != (H, W, 4) or not np.array_equal(Q[..., 0], np.full((H, W), rp)) or not np.array_equal(Q[..., 1:], base):
                    fails.append(fail("rgb_to_quat_layout", f"{vcls}", **tags))
                ok, back = call(q.quat_to_rgb, Q, False)
                if not ok or not np.array_equal(back, base):
                    fails.append(fail("rgb_round_trip", f"{vcls} clip=False", **tags))
                ok, backc = call(q.quat_to_rgb, Q, True)
                if vcls in ("unit", "zero") and (not ok or not np.array_equal(backc, base)):
                    fails.append(fail("rgb_round_trip_clip_unit_range", f"{vcls}", **tags))
                # documented clip=True (also the default): clip to [0,1] iff the WHOLE colour part lies in [-0.5, 1.5]; otherwise untouched
                model = np.clip(base, 0.0, 1.0) if (base.size and base.max() <= 1.5 and base.min() >= -0.5) else base
                okd, backd = call(q.quat_to_rgb, Q)
                if not ok or not okd or not np.array_equal(backc, model) or not np.array_equal(backd, model):
                    fails.append(fail("rgb_round_trip_clip_documented", f"{vcls}: quat_to_rgb(clip=True / default) differs from the documented whole-image rule", **tags))
                ok, parts = call(q.split_quat_channels, Q)
                ok2, st = call(lambda: q.stack_quat_channels(*parts)) if ok else (False, None)
                evals += 1
                if not ok2 or not np.array_equal(st, Q):
                    fails.append(fail("split_stack_identity", f"{vcls}", **tags))
                ok3, parts2 = call(lambda: q.split_quat_channels(q.stack_quat_channels(base[..., 0], base[..., 1], base[..., 2], base[..., 0] * 2)))
                if not ok3 or not all(np.array_equal(a, b) for a, b in zip(parts2, (base[..., 0], base[..., 1], base[..., 2], base[..., 0] * 2))):
                    fails.append(fail("stack_split_identity", f"{vcls}", **tags))
                # every selection of four planes out of the channel VIEWS of one owner buffer (all 4^4 index tuples: permuted, repeated),
                # taken from split() and directly as Q[..., c]: stack places plane t in channel t whatever its provenance
                if ok and vcls in ("byte", "neg"):
                    for src, views in (("split", parts), ("owner_views", tuple(Q[..., c] for c in range(4)))):
                        for tup in itertools.product(range(4), repeat=4):
                            okp, stp = call(q.stack_quat_channels, *[views[c] for c in tup])
                            evals += 1
                            if not okp or not np.array_equal(stp, np.stack([Q[..., c] for c in tup], axis=-1)):
                                fails.append(fail("stack_places_planes_in_order", f"planes {tup} ({src}) of one {H}x{W}x4 buffer", planes=src, **tags))
                                break
        # channel planes of mixed dtype: stack must use the common result type, split(stack(.)) returns the planes
        for nm, dts in (("int_real_plane", (np.int64, float, float, float)), ("f32_real_plane", (np.float32, float, float, float)),
                        ("uint8_mask_real", (np.uint8, float, float, float)), ("f32_colour", (float, np.float32, float, float))):
            planes = []
            for t, dt in enumerate(dts):
                v = fill.dyadic((H, W), bits=8, lo=0, hi=255) + (t + 1) * 0.001953125
                planes.append(np.floor(v).astype(dt) if np.issubdtype(dt, np.integer) else v.astype(dt))
            ok, st = call(q.stack_quat_channels, *planes)
            ok2, parts = call(q.split_quat_channels, st) if ok else (False, None)
            evals += 1
            if not ok or not ok2 or st.shape != (H, W, 4) or not all(np.array_equal(np.asarray(a, float), np.asarray(b, float)) for a, b in zip(parts, planes)):
                fails.append(fail("stack_split_identity", f"mixed dtype planes ({nm})", grp="img", vcls=nm))
    elif grp == "metrics":
        q = lib.qslst
        nontrivial = True
        fill = G.Fill(seed, stream=99)
        for H, W in ((1, 1), (2, 3), (4, 4)):
            x = fill.dyadic((H, W, 4), bits=6, lo=1, hi=200)
            variants = {
                "equal": x.copy(),
                "ulp": np.where(np.arange(x.size).reshape(x.shape) == 0, np.nextafter(x, np.inf), x),
                "pixel": x + np.where(np.arange(x.size).reshape(x.shape) == x.size - 1, 0.5, 0.0),
                "scaled": 2.0 * x,
                "tiny": x + 1e-300,
                "neg": -x,
            }
            for nm, y in variants.items():
                eq = bool(np.array_equal(x, y))
                ok, p = call(q.psnr, y, x)
                ok2, r = call(q.relative_error, y, x)
                evals += 2
                tags = {"grp": "metrics", "pair": nm}
                if not ok or not ok2:
                    fails.append(fail("metric_raised", f"{nm}: {p} {r}", **tags))
                    continue
                if (p == float("inf")) != eq:
                    fails.append(fail("psnr_inf_iff_equal", f"{nm}: psnr={p} equal={eq}", **tags))
                if (r == 0.0) != eq:
                    fails.append(fail("relerr_zero_iff_equal", f"{nm}: rel={r} equal={eq}", **tags))
                if not eq and not (r > 0 and p < float("inf")):
                    fails.append(fail("metric_sign", f"{nm}: psnr={p} rel={r}", **tags))
        # integer / single-precision images ([0,255] range): differences that overflow or wrap in the input dtype
        for dt in (np.uint8, np.int16, np.float32):
            for H, W in ((2, 3), (4, 4)):
                base = (np.arange(H * W * 3).reshape(H, W, 3) * 7 % 200).astype(dt)
                vars_ = {"equal": base.copy()}
                for d in (1, 16, 32, 128):
                    y = base.copy()
                    y[0, 0, 0] = y[0, 0, 0] + dt(d) if dt != np.uint8 else np.uint8((int(y[0, 0, 0]) + d) % 256)
                    vars_[f"pixel+{d}"] = y
                    vars_[f"all+{d}"] = (base.astype(np.int64) + d).clip(-32768, 32767).astype(dt) if dt != np.uint8 else ((base.astype(np.int64) + d) % 256).astype(dt)
                for nm, y in vars_.items():
                    eq = bool(np.array_equal(base, y))
                    ok, p = call(q.psnr, y, base)
                    ok2, r = call(q.relative_error, y.astype(np.float64), base.astype(np.float64))
                    evals += 2
                    tags = {"grp": "metrics", "pair": nm, "dtype": np.dtype(dt).name}
                    if not ok or not ok2:
                        fails.append(fail("metric_raised", f"{np.dtype(dt).name} {nm}: {p} {r}", **tags))
                        continue
                    if (p == float("inf")) != eq:
                        fails.append(fail("psnr_inf_iff_equal", f"{np.dtype(dt).name} {nm}: psnr={p} equal={eq}", **tags))
                    if not eq:
                        mse = float(np.mean((y.astype(np.float64) - base.astype(np.float64)) ** 2))
                        rng_ = float(base.max()) - float(base.min()) or 1.0
                        expect = 10.0 * math.log10(rng_ ** 2 / mse)
                        if abs(p - expect) > 1e-6 * max(1.0, abs(expect)):
                            fails.append(fail("psnr_value", f"{np.dtype(dt).name} {nm}: psnr={p!r}, definition {expect!r}", **tags))
                    # explicit data_range (positional and keyword, Python and numpy scalars, 1.0 / 255 / a fraction)
                    for dname, dr in (("1.0", 1.0), ("255", 255), ("0.25", 0.25), ("np.float64(2)", np.float64(2.0)), ("np.int64(255)", np.int64(255))):
                        for form in ("positional", "keyword"):
                            okd, pd = call(q.psnr, y, base, dr) if form == "positional" else call(q.psnr, y, base, data_range=dr)
                            evals += 1
                            if not okd:
                                fails.append(fail("metric_raised", f"psnr(data_range={dname}, {form}): {pd}", **tags))
                            elif (pd == float("inf")) != eq:
                                fails.append(fail("psnr_inf_iff_equal", f"data_range={dname}: psnr={pd} equal={eq}", **tags))
                            elif not eq:
                                mse = float(np.mean((y.astype(np.float64) - base.astype(np.float64)) ** 2))
                                expect = 10.0 * math.log10(float(dr) ** 2 / mse)
                                if abs(pd - expect) > 1e-6 * max(1.0, abs(expect)):
                                    fails.append(fail("psnr_value", f"{np.dtype(dt).name} {nm} data_range={dname} ({form}): psnr={pd!r}, definition {expect!r}", **tags))
        # low-precision float images whose difference (or its square) is not representable in the input precision: the metric is defined
        # on the values, so unequal images have a finite PSNR equal to the float64 definition
        for dt, tiny in ((np.float32, 1e-25), (np.float32, 1e-30), (np.float16, 6e-8), (np.float64, 1e-120)):
            for H, W in ((1, 1), (2, 3), (4, 4)):
                base = ((np.arange(H * W * 3).reshape(H, W, 3) * 37 % 64) / 256.0).astype(dt)
                base[0, 0, 0] = 0
                vars_ = {"equal": base.copy()}
                y = base.copy(); y[0, 0, 0] = dt(tiny); vars_["tiny_pixel"] = y
                y = base.copy(); y[-1, -1, -1] = np.nextafter(y[-1, -1, -1], dt(1)); vars_["one_ulp"] = y
                y = base.copy(); y[0, 0, 0] = np.nextafter(dt(0), dt(1)); vars_["smallest_subnormal"] = y
                for nm, y in vars_.items():
                    eq = bool(np.array_equal(base, y))
                    tags = {"grp": "metrics", "pair": nm, "dtype": np.dtype(dt).name}
                    for dname, kw in (("default", {}), ("1.0", {"data_range": 1.0})):
                        ok, pv = call(q.psnr, y, base, **kw)
                        evals += 1
                        if not ok:
                            fails.append(fail("metric_raised", f"{np.dtype(dt).name} {nm}: {pv}", **tags))
                            continue
                        mse = float(np.mean((y.astype(np.float64) - base.astype(np.float64)) ** 2))
                        if mse == 0.0 and not eq:
                            continue  # the squared difference underflows in float64 itself: nothing to decide
                        if (pv == float("inf")) != eq:
                            fails.append(fail("psnr_inf_iff_equal", f"{np.dtype(dt).name} {nm} data_range={dname}: psnr={pv} equal={eq}", **tags))
                        elif not eq:
                            rng_ = 1.0 if kw else (float(base.max()) - float(base.min()) or 1.0)
                            expect = 10.0 * math.log10(rng_ ** 2 / mse)
                            if abs(pv - expect) > 1e-6 * max(1.0, abs(expect)):
                                fails.append(fail("psnr_value", f"{np.dtype(dt).name} {nm} data_range={dname}: psnr={pv!r}, definition {expect!r}", **tags))
    else:
        q = lib.qslst
        H, W, snr = case["H"], case["W"], case["snr"]
        fill = G.Fill(seed, stream=H * 100 + W)
        Q = fill.dyadic((H, W, 4), bits=4, lo=-40, hi=40)
        if not Q.any():
            Q[0, 0, 0] = 1.0
        nontrivial = True
        tags = {"grp": "noise", "snr": snr}
        rng = StubRng()
        before = Q.tobytes()
        ok, Y = call(q.add_awgn_snr, Q, float(snr), rng)
        evals += 1
        if not ok:
            fails.append(fail("noise_raised", f"{Y}", **tags))
        else:
            noise = Y - Q
            if Q.size >= 2:
                ach = 10 * math.log10(np.sum(Q ** 2) / np.sum(noise ** 2))
                if abs(ach - snr) > 1e-9:
                    fails.append(fail("snr_identity", f"achieved {ach!r} dB vs requested {snr}", **tags))
            if len(rng.calls) != 1 or rng.calls[0][0] != 0.0 or rng.calls[0][2] != Q.shape:
                fails.append(fail("noise_generator_use", f"calls={rng.calls}", **tags))
            else:
                sig = rng.calls[0][1]
                exp_sig = math.sqrt(np.sum(Q ** 2) / (10 ** (snr / 10)) / Q.size)
                if abs(sig - exp_sig) > 1e-12 * exp_sig:
                    fails.append(fail("noise_sigma", f"sigma={sig!r} vs {exp_sig!r}", **tags))
        if Q.tobytes() != before:
            fails.append(fail("input_unchanged", "add_awgn_snr modified its argument", **tags))
        # expectation, exactly: the generator is replaced by the uniform distribution on all sign streams {+1,-1}^N
        # (iid, mean 0, variance 1); the mean of ||Y - Q||^2 over ALL 2^N streams must be ||Q||^2 / 10^(snr/10)
        if Q.size <= 12:
            N = Q.size
            tot = 0.0
            bad = None
            for bits in range(1 << N):
                srng = SignRng(bits)
                ok, Y = call(q.add_awgn_snr, Q, float(snr), srng)
                evals += 1
                if not ok or srng.pos != N:
                    bad = f"stream {bits:b}: ok={ok} draws used={srng.pos}"
                    break
                tot += float(np.sum((Y - Q) ** 2))
            if bad:
                fails.append(fail("noise_generator_use", bad, **tags))
            else:
                mean_pow = tot / (1 << N)
                want = float(np.sum(Q ** 2)) / 10 ** (snr / 10)
                if abs(mean_pow - want) > 1e-9 * want:
                    fails.append(fail("snr_in_expectation", f"E||noise||^2 over all 2^{N} sign streams = {mean_pow!r}, requested power {want!r} "
                                      f"({10 * math.log10(want / mean_pow):+.3f} dB off)", **tags))
        Z = np.zeros((H, W, 4))
        ok, Yz = call(q.add_awgn_snr, Z, float(snr), StubRng())
        if not ok or not np.array_equal(Yz, Z):
            fails.append(fail("noise_zero_image", "zero image must be returned unchanged", **tags))
    return {"key": case["key"], "fails": fails, "nontrivial": nontrivial, "evals": max(evals, 1), "transitions": max(evals, 1), "digest": case["key"], "obs": len(fails)}
