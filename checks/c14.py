"""C14 — results depend only on configuration and arguments: no hidden state, no mutation.

(a) explicit-state search over call histories: every sequence of <= 3 calls over a pool of 4
    problems, per solver class x configuration.  State = canonicalised __dict__ of the live
    object.  Oracle: the result of every call equals (bitwise) the result a fresh object
    gives for the same problem in a *pristine process* (references are computed before the
    pool starts, one forked process per (cell, problem), so instance-level and module-level
    leaks are both visible).
(b) argument-hash table + repeatability on a battery of public functions.
(d) the battery digest is identical under flat and package import styles.
"""
from __future__ import annotations

import hashlib
import itertools
import json
import multiprocessing as mp
import os
import subprocess
import sys

import numpy as np

from qmc import gen as G
from qmc import oracle as O
from qmc.run import call, digest, fail

ID = "C14"
LEVEL = "model_checking"
RULE = (
    "histories: every sequence of length 1..3 over a 4-problem pool per (solver class, configuration) cell, each call compared bitwise with a "
    "pristine-process fresh-object reference; states = distinct canonical __dict__ values reached; transitions = calls executed; "
    "battery: public functions x in-domain arguments (argument hashes, repeat-call equality); non-trivial = every history"
)
BOUNDS = {
    "quick": "21 solver cells (incl. 5 tight-budget cells mixing converging and non-converging problems) x 84 histories (4+16+64); battery of ~100 public calls plus the product (15 decompositions/solvers) x (structure classes: block-diagonal with 1..n-2 decoupled leading columns, diagonal, tridiagonal, triangular, Hessenberg, zero first column, reduced first column, zero, identity) x n in 3..5, each with repeat, in-place-aliasing, argument-hash and RNG-independence clauses; 2 import styles",
    "thorough": "pool of 5-7 problems (sys pool incl. a singular system and an equal-norm twin), depth 4; battery incl. attribute snapshots of argument objects and in-place updates of sparse containers",
}
WALL_BUDGET = {"quick": 600, "thorough": 3000}
ASSUMPTIONS = [
    "randomised solvers are re-seeded (np.random.seed) identically before the call under comparison and before its reference",
    "timing fields (iteration_times, total_time, per-iteration time lists) are excluded from comparisons",
]


# ------------------------------------------------------------------ canonical forms
def canon(x, depth=0):
    if isinstance(x, np.ndarray):
        if x.dtype == np.quaternion:
            x = G.from_quat(x)
        return ("nd", x.shape, str(x.dtype), hashlib.sha1(np.ascontiguousarray(x).tobytes()).hexdigest()[:16])
    if isinstance(x, (float, np.floating)):
        return ("f", repr(float(x)))
    if isinstance(x, (bool, np.bool_)):
        return ("b", bool(x))
    if isinstance(x, (int, np.integer)):
        return ("i", int(x))
    if isinstance(x, complex):
        return ("c", repr(x))
    if isinstance(x, str) or x is None:
        return x
    if isinstance(x, dict):
        return tuple(sorted((str(k), canon(v, depth + 1)) for k, v in x.items()))
    if isinstance(x, (list, tuple)):
        return tuple(canon(v, depth + 1) for v in x)
    if hasattr(x, "__dict__") and depth < 4:
        return (type(x).__name__, canon(vars(x), depth + 1))
    if type(x).__name__ == "quaternion":
        return ("q", repr(x))
    return repr(type(x))


TIMING_KEYS = {"iteration_times", "total_time"}


def canon_result(res, cell):
    """Canonical form of a solver result with timing fields removed."""
    def strip(v):
        if isinstance(v, dict):
            return {k: strip(w) for k, w in v.items() if k not in TIMING_KEYS}
        if isinstance(v, (list, tuple)):
            return type(v)(strip(w) for w in v)
        return v

    res = strip(res)
    if cell["cls"] == "HigherOrderNewtonSchulzPseudoinverse":
        res = (res[0], res[1])  # third output is a list of per-iteration wall times
    return canon(res)


# ------------------------------------------------------------------ cells and problems
def gmat(m, n, s, rank=None):
    f = G.Fill(11, stream=1000 * m + 10 * n + s)
    if rank is None:
        A = f.quat(m, n, bits=3, lo=-12, hi=12)
        for i in range(min(m, n)):
            A[i, i, 0] += 4.0
        return A
    return O.qmatmul(f.quat(m, rank, bits=2, lo=-4, hi=4), f.quat(rank, n, bits=2, lo=-4, hi=4))


def cells():
    out = []
    for mi in (None, 2):
        for pc in (None, "left_lu"):
            out.append({"cls": "QGMRESSolver", "kw": {"tol": 1e-10, "max_iter": mi, "preconditioner": pc}, "pool": "sys"})
    for cr in (True, False):
        out.append({"cls": "NewtonSchulzPseudoinverse", "kw": {"gamma": 0.9, "max_iter": 25, "tol": 1e-9, "compute_residuals": cr}, "pool": "any"})
    out.append({"cls": "HigherOrderNewtonSchulzPseudoinverse", "kw": {"max_iter": 8, "tol": 0.0}, "pool": "any"})
    for bs in (1, 3, 16):
        for cs in ("qr", "spd"):
            if bs == 1 and cs == "spd":
                continue
            out.append({"cls": "RandomizedSketchProjectPseudoinverse", "kw": {"block_size": bs, "max_iter": 25, "tol": 1e-8, "test_sketch_size": 4, "column_solver": cs}, "pool": "fullrank", "seeded": True})
    out.append({"cls": "HybridRSPNewtonSchulz", "kw": {"r": 2, "p": 3, "T": 2, "tol": 1e-8, "max_iter": 12}, "pool": "tall", "seeded": True})
    for pr in (0, 2):
        out.append({"cls": "CGNEQSolver", "kw": {"tol": 1e-10, "max_iter": 30, "preconditioner_rank": pr}, "pool": "tall", "seeded": True})
    out.append({"cls": "DeepLinearNewtonSchulz", "kw": {"max_iter": 2, "tol": 1e-9}, "pool": "deep"})
    # tight budgets: the pool then mixes problems that converge with problems that exhaust the budget,
    # so that a flag / counter remembered from an earlier call becomes visible
    out.append({"cls": "CGNEQSolver", "kw": {"tol": 1e-9, "max_iter": 2, "preconditioner_rank": 0}, "pool": "tall", "seeded": True})
    out.append({"cls": "RandomizedSketchProjectPseudoinverse", "kw": {"block_size": 2, "max_iter": 2, "tol": 1e-8, "test_sketch_size": 4, "column_solver": "qr"}, "pool": "fullrank", "seeded": True})
    out.append({"cls": "HybridRSPNewtonSchulz", "kw": {"r": 2, "p": 2, "T": 1, "tol": 1e-8, "max_iter": 2}, "pool": "tall", "seeded": True})
    out.append({"cls": "NewtonSchulzPseudoinverse", "kw": {"gamma": 1.0, "max_iter": 6, "tol": 1e-3, "compute_residuals": True}, "pool": "any"})
    out.append({"cls": "QGMRESSolver", "kw": {"tol": 1e-1, "max_iter": 1, "preconditioner": None}, "pool": "sys"})
    for i, c in enumerate(out):
        c["id"] = i
        c["name"] = c["cls"] + "(" + ",".join(f"{k}={v}" for k, v in c["kw"].items() if k in ("max_iter", "preconditioner", "compute_residuals", "block_size", "column_solver", "preconditioner_rank", "tol", "T")) + ")"
    return out


def problems(pool, tier):
    if pool == "sys":
        ns = [2, 5, 3, 4] + ([1] if tier == "thorough" else [])
        ps = [("solve", (gmat(n, n, 1), gmat(n, 1, 2))) for n in ns]
        # an exactly singular system (zero column): the LU preconditioner hits a zero pivot and falls back;
        # whatever the call does, a reused solver must do the same as a fresh one before and after it
        S3 = gmat(3, 3, 1)
        S3[:, 1] = 0.0
        ps.insert(1, ("solve", (S3, gmat(3, 1, 2))))
        # a twin of the 3 x 3 system with the same shape and a bitwise equal Frobenius norm (one entry negated): anything remembered under a
        # cheap fingerprint of the matrix (shape, norm, trace of moduli) is stale for it
        T3 = gmat(3, 3, 1)
        T3[1, 1] = -T3[1, 1]
        ps.append(("solve", (T3, gmat(3, 1, 2))))
        return ps
    if pool == "any":
        ps = [("compute", (gmat(2, 2, 3),)), ("compute", (gmat(4, 4, 3, rank=2),)), ("compute", (np.zeros((3, 2, 4)),)), ("compute", (gmat(2, 4, 3),))]
        return ps + ([("compute", (gmat(1, 3, 3),))] if tier == "thorough" else [])
    if pool == "fullrank":
        # (an exactly zero matrix as third problem: degenerate input, whatever the call does a reused object must do the same as a fresh one)
        ps = [("compute", (gmat(2, 2, 4),)), ("compute", (gmat(4, 4, 4),)), ("compute", (np.zeros((4, 3, 4)),)), ("compute", (gmat(2, 4, 4),))]
        return ps + ([("compute", (gmat(5, 3, 4),))] if tier == "thorough" else [])
    if pool == "tall":
        ps = [("compute", (gmat(2, 2, 5),)), ("compute", (gmat(4, 4, 5),)), ("compute", (np.zeros((3, 2, 4)),)), ("compute", (gmat(4, 2, 5),))]
        return ps + ([("compute", (gmat(5, 3, 5),))] if tier == "thorough" else [])
    if pool == "deep":
        ps = [("compute", (gmat(3, 2, 6), [2, 3])), ("compute", (gmat(4, 2, 6), [2, 2, 4])), ("compute", (gmat(2, 2, 6), [2, 2])), ("compute", (gmat(3, 3, 6), [3, 3]))]
        return ps + ([("compute", (gmat(4, 3, 6), [3, 4]))] if tier == "thorough" else [])
    raise ValueError(pool)


def alt_problem(prob):
    """same method and shapes, different data (scaled by 1.5, one entry shifted)."""
    meth, args = prob
    out = []
    for a in args:
        if isinstance(a, np.ndarray):
            b = a * 1.5
            b[(0,) * (b.ndim - 1)] += np.array([0.5, 0.0, -0.25, 0.0])
            out.append(b)
        else:
            out.append(a)
    return meth, tuple(out)


def do_call(lib, obj, prob, reuse=None):
    """reuse: list of quaternion arrays of a previous call; if given, the new data are written INTO these
    objects (same identity, same shape) instead of allocating fresh arrays."""
    meth, args = prob
    if reuse is None:
        qargs = [G.to_quat(a) if isinstance(a, np.ndarray) else a for a in args]
    else:
        qargs = []
        for a, old in zip(args, reuse):
            if isinstance(a, np.ndarray):
                old[...] = G.to_quat(a)
                qargs.append(old)
            else:
                qargs.append(a)
    before = [a.tobytes() if isinstance(a, np.ndarray) else repr(a) for a in qargs]
    np.random.seed(424242)
    ok, res = call(getattr(obj, meth), *qargs)
    after = [a.tobytes() if isinstance(a, np.ndarray) else repr(a) for a in qargs]
    do_call.last_args = qargs
    return ok, res, before == after


def _reference(arg):
    """Runs in a pristine forked process: fresh object, one call."""
    cell, pi, tier, alt = arg
    devnull = os.open(os.devnull, os.O_WRONLY)
    os.dup2(devnull, 1)
    np.seterr(all="ignore")
    from qmc.loader import load

    lib = load()
    obj = getattr(lib.solver, cell["cls"])(**cell["kw"])
    prob = problems(cell["pool"], tier)[pi]
    ok, res, _ = do_call(lib, obj, alt_problem(prob) if alt else prob)
    return (cell["id"], pi, alt), (ok, canon_result(res, cell) if ok else repr(type(res)))


_REF = {}


def cases(tier, seed):
    global _REF
    cs = cells()
    npool = 4 if tier == "quick" else 5
    npools = {c["id"]: npool + (2 if c["pool"] == "sys" else 0) for c in cs}
    jobs = [(c, pi, tier, alt) for c in cs for pi in range(npools[c["id"]]) for alt in (0, 1)]
    ctx = mp.get_context("fork")
    with ctx.Pool(min(16, len(jobs)), maxtasksperchild=1) as pool:
        _REF = dict(pool.map_async(_reference, jobs, chunksize=1).get(timeout=900))
    out = []
    for c in cs:
        for L in ((1, 2, 3) if tier == "quick" else (1, 2, 3, 4)):
            for h in itertools.product(range(npools[c["id"]]), repeat=L):
                out.append({"key": f"hist/{c['name']}/{''.join(map(str, h))}", "grp": "hist", "cell": c["id"], "hist": list(h), "tier": tier})
    out.append({"key": "battery/flat-vs-package", "grp": "styles"})
    out.append({"key": "battery/arguments-and-repeatability", "grp": "battery"})
    return out


# ------------------------------------------------------------------ battery
def battery(lib):
    """list of (name, fn, args, randomized?) over public functions with in-domain arguments."""
    u, sv, q, t = lib.utils, lib.solver, lib.qslst, lib.tensor
    A33, A43, A34, b3 = gmat(3, 3, 7), gmat(4, 3, 7), gmat(3, 4, 7), gmat(3, 1, 8)
    Hm = 0.5 * (A33 + O.qH(A33))
    for i in range(3):
        Hm[i, i, 1:] = 0
    Q_ = G.to_quat
    img = np.arange(3 * 4 * 4, dtype=float).reshape(3, 4, 4) / 7
    psf = np.array([[0.0, 0.2, 0.0], [0.3, 0.1, 0.2], [0.0, 0.2, 0.0]])
    T3 = Q_(np.arange(2 * 3 * 2 * 4, dtype=float).reshape(2, 3, 2, 4))
    from checks.common import comps, to_sparse

    B = [
        ("quat_matmat", u.quat_matmat, (Q_(A43), Q_(A33)), False),
        ("quat_matmat_sparse", u.quat_matmat, (to_sparse(lib, A43), Q_(A33)), False),
        ("quat_frobenius_norm", u.quat_frobenius_norm, (Q_(A43),), False),
        ("quat_hermitian", u.quat_hermitian, (Q_(A43),), False),
        ("matrix_norm_2", u.matrix_norm, (Q_(A43), 2), False),
        ("matrix_norm_1", u.matrix_norm, (Q_(A43), 1), False),
        ("real_expand", u.real_expand, (Q_(A43),), False),
        ("real_contract", u.real_contract, (O.real_interleaved(A43), 4, 3), False),
        ("Realp", u.Realp, tuple(comps(A43)), False),
        ("timesQsparse", u.timesQsparse, tuple(comps(A43)) + tuple(comps(A33)), False),
        ("normQsparse", u.normQsparse, tuple(comps(A43)), False),
        ("ggivens", u.ggivens, (np.array([1.0, 2, 0, -1]), np.array([0.5, 0, 3, 1])), False),
        ("ishermitian", u.ishermitian, (Q_(Hm),), False),
        ("det_D", u.det, (Q_(A33), "Dieudonne"), False),
        ("det_M", u.det, (Q_(Hm), "Moore"), False),
        ("rank", u.rank, (Q_(A43),), False),
        ("quat_null_space", u.quat_null_space, (Q_(gmat(3, 4, 9, rank=2)),), False),
        ("power_iteration", u.power_iteration, (Q_(Hm),), True),
        ("power_iteration_nonhermitian", u.power_iteration_nonhermitian, (Q_(A33),), False),
        ("quaternion_to_complex_adjoint", u.quaternion_to_complex_adjoint, (Q_(A33),), False),
        ("quaternion_lu", lib.LU.quaternion_lu, (Q_(A43),), False),
        ("quaternion_lu_p", lambda A: lib.LU.quaternion_lu(A, return_p=True), (Q_(A34),), False),
        ("qr_qua", lib.qsvd.qr_qua, (Q_(A43),), False),
        ("qr_qua_wide", lib.qsvd.qr_qua, (Q_(A34),), False),
        ("classical_qsvd_full", lib.qsvd.classical_qsvd_full, (Q_(A43),), False),
        ("classical_qsvd", lib.qsvd.classical_qsvd, (Q_(A43), 2), False),
        ("rand_qsvd", lib.qsvd.rand_qsvd, (Q_(A43), 2, 1, 1), True),
        ("pass_eff_qsvd", lib.qsvd.pass_eff_qsvd, (Q_(A43), 2, 1, 3), True),
        ("eigendecomposition", lib.eigen.quaternion_eigendecomposition, (Q_(Hm),), False),
        ("tridiagonalize", lib.tridiag.tridiagonalize, (Q_(Hm),), False),
        ("householder_matrix[e1]", lib.tridiag.householder_matrix, (Q_(A43)[:3, 0].copy(), np.array([1.0, 0.0, 0.0])), False),
        ("householder_matrix[2e1]", lib.tridiag.householder_matrix, (Q_(A43)[:3, 0].copy(), np.array([2.0, 0.0, 0.0])), False),
        ("householder_matrix[e1+e2]", lib.tridiag.householder_matrix, (Q_(A43)[:3, 0].copy(), np.array([1.0, 1.0, 0.0])), False),
        ("householder_matrix[0.25e3]", lib.tridiag.householder_matrix, (Q_(A43)[:3, 0].copy(), np.array([0.0, 0.0, 0.25])), False),
        ("householder_matrix[int target]", lib.tridiag.householder_matrix, (Q_(A43)[:3, 0].copy(), np.array([0, 3, 0])), False),
        ("householder_vector[e1]", lib.tridiag.householder_vector, (Q_(A43)[:3, 0].copy(), np.array([1.0, 0.0, 0.0])), False),
        ("householder_vector[e2]", lib.tridiag.householder_vector, (Q_(A43)[:3, 0].copy(), np.array([0.0, 1.0, 0.0])), False),
        ("quaternion_tril", lambda A: lib.LU.quaternion_tril(A, -1), (Q_(A33),), False),
        ("quaternion_triu", lambda A: lib.LU.quaternion_triu(A, 1), (Q_(A33),), False),
        ("check_hessenberg", lib.hess.check_hessenberg, (Q_(A33),), False),
        ("is_hessenberg", lib.hess.is_hessenberg, (Q_(A33),), False),
        ("quat_abs_scalar", u.quat_abs_scalar, (Q_(A33)[0, 1],), False),
        ("GRSGivens", u.GRSGivens, (np.array([0.5, -0.5, 0.5, 0.5]),), False),
        ("absQsparse", u.absQsparse, tuple(comps(A43)), False),
        ("dotinvQsparse", u.dotinvQsparse, tuple(comps(A43)), False),
        ("A2A0123", u.A2A0123, (np.hstack(comps(A43)),), False),
        ("normQ", u.normQ, (Q_(A43),), False),
        ("induced_matrix_norm_1", u.induced_matrix_norm_1, (Q_(A43),), False),
        ("induced_matrix_norm_inf", u.induced_matrix_norm_inf, (Q_(A43),), False),
        ("spectral_norm_2", u.spectral_norm_2, (Q_(A43),), False),
        ("quat_null_left", u.quat_null_left, (Q_(gmat(4, 3, 9, rank=2)),), False),
        ("quat_kernel", u.quat_kernel, (Q_(gmat(3, 4, 9, rank=2)),), False),
        ("quaternion_eigenvalues", lib.eigen.quaternion_eigenvalues, (Q_(Hm),), False),
        ("quaternion_eigenvectors", lib.eigen.quaternion_eigenvectors, (Q_(Hm),), False),
        ("tensor_entrywise_abs", t.tensor_entrywise_abs, (T3,), False),
        ("split_quat_channels", q.split_quat_channels, (img.copy(),), False),
        ("stack_quat_channels", q.stack_quat_channels, (img[..., 0].copy(), img[..., 1].copy(), img[..., 2].copy(), img[..., 3].copy()), False),
        ("qslst_restore_fft", q.qslst_restore_fft, (img.copy(), psf.copy(), 0.25), False),
        ("add_awgn_snr", lambda Qi: q.add_awgn_snr(Qi, 10.0, np.random.default_rng(5)), (img.copy(),), False),
        ("hessenbergize", lib.hess.hessenbergize, (Q_(A33),), False),
        ("quaternion_schur", lambda A: lib.schur.quaternion_schur(A, max_iter=30), (Q_(A33),), False),
        ("quaternion_schur_pure", lambda A: lib.schur.quaternion_schur_pure(A, max_iter=30), (Q_(A33),), False),
        ("quaternion_schur_pure_implicit", lambda A: lib.schur.quaternion_schur_pure_implicit(A, max_iter=30), (Q_(A33),), False),
        ("quaternion_schur_unified_aed", lambda A: lib.schur.quaternion_schur_unified(A, variant="aed", max_iter=30), (Q_(A33),), False),
        ("quaternion_schur_unified_ds", lambda A: lib.schur.quaternion_schur_unified(A, variant="ds", max_iter=30), (Q_(A33),), False),
        ("quaternion_schur_experimental", lambda A: lib.schur.quaternion_schur_experimental(A, max_iter=30), (Q_(A33),), False),
    ]
    # structured inputs on which QR sweeps can stall exactly (exchange / cyclic shift / lower shift matrices)
    for kind in ("exchange", "cyclic_shift", "cyclic_shift_q", "lower_shift", "companion"):
        for nn in (2, 3, 4):
            S_ = Q_(G.special(kind, nn))
            B += [
                (f"schur_pure_rayleigh[{kind},{nn}]", lambda A: lib.schur.quaternion_schur_pure(A, max_iter=30, shift_mode="rayleigh"), (S_.copy(),), False),
                (f"schur_pure_none[{kind},{nn}]", lambda A: lib.schur.quaternion_schur_pure(A, max_iter=30, shift_mode="none"), (S_.copy(),), False),
                (f"schur_implicit[{kind},{nn}]", lambda A: lib.schur.quaternion_schur_pure_implicit(A, max_iter=30), (S_.copy(),), False),
                (f"schur_unified_aed[{kind},{nn}]", lambda A: lib.schur.quaternion_schur_unified(A, variant="aed", max_iter=30), (S_.copy(),), False),
                (f"schur_unified_ds[{kind},{nn}]", lambda A: lib.schur.quaternion_schur_unified(A, variant="ds", max_iter=30), (S_.copy(),), False),
                (f"schur_realblock[{kind},{nn}]", lambda A: lib.schur.quaternion_schur(A, max_iter=30), (S_.copy(),), False),
                (f"schur_experimental[{kind},{nn}]", lambda A: lib.schur.quaternion_schur_experimental(A, max_iter=30), (S_.copy(),), False),
                (f"hessenbergize[{kind},{nn}]", lib.hess.hessenbergize, (S_.copy(),), False),
            ]
    # structure classes x decompositions: shortcuts for already-reduced / decoupled / zero inputs are exactly where
    # a "B = A" without a copy hides (argument mutation only shows when the skipped step would have been non-trivial
    # further down the recursion)
    def _structured(nn, hermitian):
        base = gmat(nn, nn, 11 + nn)
        if hermitian:
            base = 0.5 * (base + O.qH(base))
            for i in range(nn):
                base[i, i, 1:] = 0
        outS = {}
        for dcut in range(1, nn - 1):  # block diag(dcut x dcut, rest): first dcut columns decoupled
            X = base.copy()
            X[dcut:, :dcut] = 0
            X[:dcut, dcut:] = 0
            outS[f"blockdiag{dcut}"] = X
        X = np.zeros_like(base)
        for i in range(nn):
            X[i, i] = base[i, i]
        outS["diag"] = X
        X = base.copy()
        for i in range(nn):
            for j_ in range(nn):
                if abs(i - j_) > 1:
                    X[i, j_] = 0
        outS["tridiag"] = X
        if not hermitian:
            X = base.copy()
            for i in range(nn):
                X[i + 1:, i] = 0
            outS["triu"] = X
            X = base.copy()
            for i in range(nn):
                X[i + 2:, i] = 0
            outS["hessenberg"] = X
            X = base.copy()
            X[:, 0] = 0
            outS["zerocol0"] = X
            X = base.copy()
            X[1:, 0] = 0
            outS["col0_reduced"] = X
        outS["zero"] = np.zeros_like(base)
        outS["identity"] = O.qeye(nn)
        return outS

    herm_fns = [
        ("tridiagonalize", lib.tridiag.tridiagonalize),
        ("eigendecomposition", lib.eigen.quaternion_eigendecomposition),
        ("eigenvalues", lib.eigen.quaternion_eigenvalues),
        ("det_M", lambda A: u.det(A, "Moore")),
        ("power_iteration_nonhermitian", u.power_iteration_nonhermitian),
    ]
    gen_fns = [
        ("hessenbergize", lib.hess.hessenbergize),
        ("qr_qua", lib.qsvd.qr_qua),
        ("classical_qsvd_full", lib.qsvd.classical_qsvd_full),
        ("quaternion_lu_p", lambda A: lib.LU.quaternion_lu(A, return_p=True)),
        ("rank", u.rank),
        ("matrix_norm_2", lambda A: u.matrix_norm(A, 2)),
        ("quat_null_space", u.quat_null_space),
        ("schur_pure", lambda A: lib.schur.quaternion_schur_pure(A, max_iter=20)),
        ("schur_implicit", lambda A: lib.schur.quaternion_schur_pure_implicit(A, max_iter=20)),
        ("NS.compute", lambda A: sv.NewtonSchulzPseudoinverse(max_iter=6).compute(A)),
    ]
    SINGULAR_OK = {"zero", "zerocol0", "diag", "identity", "triu", "hessenberg", "tridiag", "col0_reduced"}
    for nn in (3, 4, 5):
        for sname, X in _structured(nn, True).items():
            for fname, fn in herm_fns:
                if fname == "power_iteration_nonhermitian" and sname in ("zero",):
                    continue
                B.append((f"struct:{fname}[{sname},{nn}]", fn, (Q_(X),), fname == "power_iteration_nonhermitian"))
        for sname, X in _structured(nn, False).items():
            for fname, fn in gen_fns:
                if fname == "quaternion_lu_p" and sname in ("zero", "zerocol0"):
                    continue  # singular input: LU raises (C07/C20), not a C14 cell
                B.append((f"struct:{fname}[{sname},{nn}]", fn, (Q_(X),), False))
    B += [
        ("tensor_unfold", t.tensor_unfold, (T3, 1), False),
        ("tensor_fold", t.tensor_fold, (t.tensor_unfold(T3, 2), 2, (2, 3, 2)), False),
        ("tensor_frobenius_norm", t.tensor_frobenius_norm, (T3,), False),
        ("rgb_to_quat", q.rgb_to_quat, (img[..., :3].copy(),), False),
        ("quat_to_rgb", q.quat_to_rgb, (img.copy(),), False),
        ("apply_blur_fft", q.apply_blur_fft, (img.copy(), psf.copy()), False),
        ("qslst_restore_fft", q.qslst_restore_fft, (img.copy(), psf.copy(), 0.1), False),
        ("qslst_restore_matrix", q.qslst_restore_matrix, (img.copy(), np.eye(12) * 0.5 + 0.1, 0.1), False),
        ("psnr", q.psnr, (img.copy(), img.copy() + 0.1), False),
        ("relative_error", q.relative_error, (img.copy(), img.copy() + 0.1), False),
        ("build_psf_gaussian", q.build_psf_gaussian, (2, 1.0), False),
        ("build_psf_motion", q.build_psf_motion, (4, 30.0), False),
        ("_solve_upper_triangular_quat", sv._solve_upper_triangular_quat, (Q_(np.triu(A33.transpose(2, 0, 1)).transpose(1, 2, 0) + O.qeye(3) * 3), Q_(A34)), False),
        ("_solve_lower_triangular_quat", sv._solve_lower_triangular_quat, (Q_(np.tril(A33.transpose(2, 0, 1)).transpose(1, 2, 0) + O.qeye(3) * 3), Q_(A34)), False),
        ("QGMRES.solve", lambda A, b: sv.QGMRESSolver(tol=1e-10).solve(A, b), (Q_(A33), Q_(b3)), False),
        ("QGMRES.solve_lu", lambda A, b: sv.QGMRESSolver(tol=1e-10, preconditioner="left_lu").solve(A, b), (Q_(A33), Q_(b3)), False),
        ("QGMRES.solve_sparse", lambda A, b: sv.QGMRESSolver(tol=1e-10).solve(A, b), (to_sparse(lib, A33), Q_(b3)), False),
        ("NS.compute", lambda A: sv.NewtonSchulzPseudoinverse(max_iter=10).compute(A), (Q_(A43),), False),
        ("NS.compute_sparse", lambda A: sv.NewtonSchulzPseudoinverse(max_iter=10).compute(A), (to_sparse(lib, A43),), False),
        ("RSP.compute", lambda A: sv.RandomizedSketchProjectPseudoinverse(block_size=2, max_iter=10).compute(A), (Q_(A43),), True),
        ("RSP.row", lambda A: sv.RandomizedSketchProjectPseudoinverse(block_size=2, max_iter=10).compute_row_variant(A), (Q_(A34),), True),
        ("CGNE.compute", lambda A: sv.CGNEQSolver(max_iter=10).compute(A), (Q_(A43),), False),
        ("create_test_matrix", lib.data_gen.create_test_matrix, (3, 2), True),
        ("create_test_matrix_cond", lambda: lib.data_gen.create_test_matrix(4, 2, rank=2, cond_number=100.0), (), True),
        ("create_sparse_quat_matrix", lambda: sparse_parts(lib.data_gen.create_sparse_quat_matrix(5, 4, density=0.5)), (), True),
        ("sparse_scalar_mul", lambda S: sparse_parts(2.5 * S), (to_sparse(lib, A43),), False),
        ("sparse_conj_T", lambda S: sparse_parts(S.conjugate().transpose()), (to_sparse(lib, A43),), False),
        ("DeepLinear_random_init", lambda X: sv.DeepLinearNewtonSchulz(max_iter=1, random_init=True).compute(X, [3, 3, 4]), (Q_(A43),), True),
        ("generate_random_unitary_matrix", lib.data_gen.generate_random_unitary_matrix, (3,), True),
    ]
    return B


RNG_CONSUMERS = {"power_iteration_nonhermitian"}  # documented to fall back on power_iteration (random start) for Hermitian input
SCALE_BLIND = {"ishermitian", "is_hessenberg", "GRSGivens", "build_psf_gaussian", "build_psf_motion", "create_test_matrix", "generate_random_unitary_matrix"}


def alt_data(name, X):
    """different in-domain data of the same shape/dtype/structure (Hermitian, triangular, ... preserved)."""
    if X.dtype == np.quaternion:
        Y = X * 1.5
        Y[(0,) * Y.ndim] = Y[(0,) * Y.ndim] + 2.0
        if name in ("rank", "quat_null_space") and Y.ndim == 2 and Y.shape[0] >= 2:
            Y[:, -1] = Y[:, 0] * 2.0  # changes the rank, too
        return Y
    Y = X * 1.5
    Y.flat[0] = Y.flat[0] + 0.25
    return Y


def sparse_parts(S):
    return tuple(c.toarray() for c in (S.real, S.i, S.j, S.k))


def arg_hash(a):
    out = []
    for x in a:
        if isinstance(x, np.ndarray):
            out.append((x.shape, str(x.dtype), x.tobytes()))
        elif type(x).__name__ == "SparseQuaternionMatrix":
            out.append(tuple(c.toarray().tobytes() for c in (x.real, x.i, x.j, x.k)))
        else:
            out.append(repr(x))
    return out


def canon_plain(r):
    def strip(v):
        if isinstance(v, dict):
            return {k: strip(w) for k, w in v.items() if k not in TIMING_KEYS}
        if isinstance(v, (list, tuple)):
            return type(v)(strip(w) for w in v)
        if type(v).__name__ == "SparseQuaternionMatrix":
            return tuple(c.toarray() for c in (v.real, v.i, v.j, v.k))
        return v

    return canon(strip(r))


def battery_digest(lib):
    rows = []
    for name, fn, args, rnd in battery(lib):
        np.random.seed(777)
        ok, r = call(fn, *args)
        rows.append((name, ok, canon_plain(r) if ok else type(r).__name__))
    return rows


def main_battery(style):
    """entry point for the import-style subprocess: prints a JSON list of (name, digest)."""
    devnull = os.open(os.devnull, os.O_WRONLY)
    saved = os.dup(1)
    os.dup2(devnull, 1)
    np.seterr(all="ignore")
    import warnings

    warnings.simplefilter("ignore")
    from qmc.loader import load

    lib = load(style)
    rows = battery_digest(lib)
    os.dup2(saved, 1)
    print(json.dumps([[n, ok, hashlib.sha1(repr(c).encode()).hexdigest()[:16]] for n, ok, c in rows]))


# ------------------------------------------------------------------ run
def run_case(case, seed):
    from qmc.loader import load

    lib = load()
    fails = []
    grp = case["grp"]
    if grp == "hist":
        cell = cells()[case["cell"]]
        probs = problems(cell["pool"], case["tier"])
        obj = getattr(lib.solver, cell["cls"])(**cell["kw"])
        states = [digest(canon(vars(obj)))]
        init_state = states[0]
        tags = {"grp": "hist", "cls": cell["cls"], "cell": cell["name"]}
        ncalls = 0
        kept = []  # results already handed to the caller: they are the caller's arrays now and must never change again
        for step, pi in enumerate(case["hist"]):
            d0 = canon(vars(obj))
            ok, res, args_same = do_call(lib, obj, probs[pi])
            ncalls += 1
            got = (ok, canon_result(res, cell) if ok else repr(type(res)))
            for (st0, res0, c0) in kept:
                if canon_result(res0, cell) != c0:
                    fails.append(fail("earlier_result_overwritten", f"history {case['hist']}: the value returned by call {st0} changed while call {step} ran (returned arrays alias internal buffers)", step=step, **tags))
            if ok:
                kept.append((step, res, got[1]))
            ref = _REF[(cell["id"], pi, 0)]
            if not args_same:
                fails.append(fail("argument_mutated", f"call {step} (problem {pi}) modified its arguments", **tags))
            if got != ref:
                fails.append(
                    fail(
                        "reused_object!=fresh_object",
                        f"history {case['hist']} call {step} on problem {pi}: result differs from a fresh {cell['cls']} in a pristine process"
                        + ("" if got[0] == ref[0] else f" (ok={got[0]} vs {ref[0]})"),
                        step=step,
                        first_call=(step == 0),
                        **tags,
                    )
                )
                break
            states.append(digest(canon(vars(obj))))
        if not fails:
            # aliased input: write different data of the same shapes INTO the argument objects of the last call
            pi = case["hist"][-1]
            ok, res, args_same = do_call(lib, obj, alt_problem(probs[pi]), reuse=do_call.last_args)
            ncalls += 1
            got = (ok, canon_result(res, cell) if ok else repr(type(res)))
            for (st0, res0, c0) in kept:
                if canon_result(res0, cell) != c0:
                    fails.append(fail("earlier_result_overwritten", f"history {case['hist']}: the value returned by call {st0} changed during the final in-place call", **tags))
            if got != _REF[(cell["id"], pi, 1)]:
                fails.append(fail("stale_result_after_inplace_update", f"history {case['hist']}: after overwriting the arguments of the last call in place, the result differs from a fresh {cell['cls']} on the new data", **tags))
            states.append(digest(canon(vars(obj))))
        changed = len(set(states)) > 1
        return {"key": case["key"], "fails": fails, "nontrivial": True, "digest": case["key"], "states": sorted(set(states)), "transitions": ncalls, "traces": 0 if fails else 1,
                "path": f"{cell['cls']}:dict_{'changes' if changed else 'constant'}", "obs": [len(fails), states]}
    if grp == "battery":
        evals = 0
        for name, fn, args, rnd in battery(lib):
            tags = {"grp": "battery", "fn": name}
            h0 = arg_hash(args)
            attrs0 = [sorted(vars(x)) if hasattr(x, "__dict__") and not isinstance(x, np.ndarray) else None for x in args]
            np.random.seed(777)
            ok1, r1 = call(fn, *args)
            h1 = arg_hash(args)
            attrs1 = [sorted(vars(x)) if hasattr(x, "__dict__") and not isinstance(x, np.ndarray) else None for x in args]
            if attrs0 != attrs1:
                fails.append(fail("argument_mutated", f"{name} left new attributes on an argument object: {[sorted(set(b) - set(a)) for a, b in zip(attrs0, attrs1) if a != b]}", **tags))
            np.random.seed(777)
            ok2, r2 = call(fn, *args)
            evals += 2
            if not ok1:
                fails.append(fail("battery_call_raised", f"{name}: {type(r1).__name__}: {r1}", **tags))
                continue
            if h0 != h1:
                fails.append(fail("argument_mutated", f"{name} modified an argument", **tags))
            if not ok2 or canon_plain(r1) != canon_plain(r2):
                fails.append(fail("repeat_call_differs", f"{name}: two identical calls (same global seed) returned different values", **tags))
            # aliased input: overwrite the first array argument IN PLACE with different in-domain data and call
            # again with the same object; the result must equal the result on a fresh copy of the new data
            if args and isinstance(args[0], np.ndarray) and args[0].size and name not in ("real_contract",):
                X = args[0]
                orig = X.copy()
                alt = alt_data(name, orig)
                fresh_args = (alt.copy(),) + tuple(args[1:])
                c1 = canon_plain(r1) if ok1 else None  # results may be views of the argument: canonicalise before touching it
                # the in-place call comes directly after the calls on the old contents (nothing in between)
                X[...] = alt
                np.random.seed(777)
                oki, ri = call(fn, *args)
                ci = canon_plain(ri) if oki else None
                X[...] = orig
                np.random.seed(777)
                okf, rf = call(fn, *fresh_args)
                evals += 2
                if okf != oki or (okf and canon_plain(rf) != ci):
                    fails.append(fail("stale_result_after_inplace_update", f"{name}: after overwriting the argument in place the call returns a different value than on a fresh copy of the same data", **tags))
                elif okf and ok1 and canon_plain(rf) == c1 and name not in SCALE_BLIND and not name.startswith("struct:"):
                    fails.append(fail("battery_alt_not_discriminating", f"{name}: alternate data gives the same result (check design)", **tags))
            # the same for a sparse container as first argument: the caller updates its coefficient planes in place between two calls
            if args and type(args[0]).__name__ == "SparseQuaternionMatrix" and ok1:
                from checks.common import to_sparse as _to_sparse, sparse_to_arr as _sparse_to_arr
                S = args[0]
                saved = [c.data.copy() for c in (S.real, S.i, S.j, S.k)]
                for t_, c in enumerate((S.real, S.i, S.j, S.k)):
                    c.data *= 1.5
                    if c.data.size:
                        c.data[0] += 0.25 * (t_ + 1)
                fresh = _to_sparse(lib, _sparse_to_arr(S))
                np.random.seed(777)
                oki, ri = call(fn, *args)
                ci = canon_plain(ri) if oki else None
                np.random.seed(777)
                okf, rf = call(fn, fresh, *args[1:])
                for c, d in zip((S.real, S.i, S.j, S.k), saved):
                    c.data[...] = d
                evals += 2
                if okf != oki or (okf and canon_plain(rf) != ci):
                    fails.append(fail("stale_result_after_inplace_update", f"{name}: after the caller updated the sparse container in place the call returns a different value than on a fresh container with the same coefficients", **tags))
                elif okf and canon_plain(rf) == canon_plain(r1) and name not in SCALE_BLIND:
                    fails.append(fail("battery_alt_not_discriminating", f"{name}: updated sparse data give the same result (check design)", **tags))
            # read-only arguments: a routine that never writes into its arguments accepts them
            if any(isinstance(x, np.ndarray) for x in args):
                ro_args = []
                for x in args:
                    if isinstance(x, np.ndarray):
                        x = x.copy()
                        x.setflags(write=False)
                    ro_args.append(x)
                np.random.seed(777)
                okr, rr = call(fn, *ro_args)
                evals += 1
                if not okr:
                    fails.append(fail("writes_into_argument", f"{name}: raises on read-only arguments: {type(rr).__name__}: {rr}", **tags))
                elif canon_plain(rr) != canon_plain(r1):
                    fails.append(fail("repeat_call_differs", f"{name}: read-only copies of the arguments give a different value", **tags))
            if not rnd:
                # a deterministic routine must not depend on (or consume) the global random stream
                np.random.seed(991)
                st0 = np.random.get_state()[1].copy()
                ok4, r4 = call(fn, *args)
                st1 = np.random.get_state()[1]
                evals += 1
                if ok4 and ok1 and canon_plain(r4) != canon_plain(r1):
                    fails.append(fail("depends_on_global_rng", f"{name}: result changes with the state of numpy's global generator", **tags))
                if name.split(":")[-1].split("[")[0] not in RNG_CONSUMERS and not np.array_equal(st0, st1):
                    fails.append(fail("consumes_global_rng", f"{name}: deterministic routine advances numpy's global generator", **tags))
            if rnd:
                np.random.seed(778)
                ok3, r3 = call(fn, *args)
                evals += 1
                if ok3 and canon_plain(r3) == canon_plain(r1):
                    fails.append(fail("seed_not_used", f"{name}: different global seeds give identical output", **tags))
        return {"key": case["key"], "fails": fails, "nontrivial": True, "digest": case["key"], "evals": evals, "transitions": evals, "path": "battery", "obs": len(fails)}
    # import styles: two fresh subprocesses
    outs = {}
    for style in ("flat", "package"):
        env = dict(os.environ, PYTHONHASHSEED="0")
        r = subprocess.run([sys.executable, "-c", f"import sys; sys.path.insert(0, {os.path.dirname(os.path.dirname(os.path.abspath(__file__)))!r}); from checks.c14 import main_battery; main_battery({style!r})"],
                           capture_output=True, text=True, env=env, timeout=600)
        if r.returncode != 0:
            fails.append(fail("import_style_failed", f"{style}: {r.stderr[-600:]}", style=style))
            outs[style] = None
        else:
            outs[style] = json.loads(r.stdout.strip().splitlines()[-1])
    # the per-process string-hash salt must not matter: the flat battery again under two other PYTHONHASHSEED values
    for salt in ("1", "4242"):
        env = dict(os.environ, PYTHONHASHSEED=salt)
        r = subprocess.run([sys.executable, "-c", f"import sys; sys.path.insert(0, {os.path.dirname(os.path.dirname(os.path.abspath(__file__)))!r}); from checks.c14 import main_battery; main_battery('flat')"],
                           capture_output=True, text=True, env=env, timeout=600)
        if r.returncode != 0:
            fails.append(fail("import_style_failed", f"flat, PYTHONHASHSEED={salt}: {r.stderr[-600:]}", style="flat"))
        elif outs.get("flat"):
            other = json.loads(r.stdout.strip().splitlines()[-1])
            for (n1, ok1, d1), (n2, ok2, d2) in zip(outs["flat"], other):
                if (ok1, d1) != (ok2, d2):
                    fails.append(fail("depends_on_hash_salt", f"{n1}: PYTHONHASHSEED=0 gives ok={ok1} digest={d1}, PYTHONHASHSEED={salt} gives ok={ok2} digest={d2}", fn=n1))
    if outs.get("flat") and outs.get("package"):
        for (n1, ok1, d1), (n2, ok2, d2) in zip(outs["flat"], outs["package"]):
            if (ok1, d1) != (ok2, d2):
                fails.append(fail("import_styles_differ", f"{n1}: flat ok={ok1} digest={d1}, package ok={ok2} digest={d2}", fn=n1))
    return {"key": case["key"], "fails": fails, "nontrivial": True, "digest": case["key"], "evals": 2 * len(outs.get("flat") or []), "path": "styles", "obs": len(fails)}


def summarize(results):
    per = {}
    for r in results:
        p = r.get("path") or ""
        if ":" in p:
            per[p] = per.get(p, 0) + 1
    return {"histories_by_cell_behaviour": per}
