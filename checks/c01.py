"""C01 — the quaternion matrix product is the Hamilton product in every storage format.

(a) basis-exhaustive: every (shape, position of A, position of B, unit pair, path) cell
(b) additivity closure: sums of two basis matrices x basis matrices
(c) entry-pattern classes incl. 2^+-300 scalings, all five paths, exact
(d) conjugate transpose: involution and product reversal, dense and sparse
(e) Frobenius norm: equal across formats, ^H- and unitary-invariant, sub-multiplicative
All expected values come from the integer Hamilton table (qmc.oracle), bit-exact.
"""
from __future__ import annotations

import itertools
import math

import numpy as np
from scipy import sparse as sp

from checks.common import comps, hash_tag, relayout, result_to_arr, sparse_to_arr, to_sparse
from qmc import gen as G
from qmc import oracle as O
from qmc.loader import load
from qmc.run import call, fail

ID = "C01"
LEVEL = "model_checking"
RULE = (
    "one case = (clause group, shape); inside, every position x unit pair x storage path cell is one "
    "evaluation (one library product compared exactly with the integer oracle); non-trivial = the "
    "expected product has a non-zero entry; cells are distinct by construction (different key tuple)"
)
BOUNDS = {
    "quick": "(a),(b): m,k,n<=2 all positions, 16 unit pairs (64 signed for 1x1); (c),(d),(e): m,k,n<=3, six pattern classes, 1 fill row; monomial unitaries n<=2 all, n=3 transversal; large RESULTS 65536x1 . 1xn and transpose for n=2..40 + three squarish results; all component-support combinations on (1x1)(1x2), (2x1)(1x1), five supports on (1x1)(1x3), (1x2)(2x1), (2x1)(1x2)",
    "thorough": "(a): m,k,n<=4; (b): <=2; (c),(d),(e): m,k,n<=4, 3 fill rows; monomial unitaries n<=3 all; large results n=2..130 + nine squarish results",
}
WALL_BUDGET = {"quick": 300, "thorough": 2400}
ASSUMPTIONS = [
    "dyadic entries with numerators < 2^8: all products/sums are exact in binary64, so equality is demanded bit for bit (numeric ==, signed zeros identified)",
    "sizes > 4 and non-dyadic entries are not enumerated",
]

PATHS = ["dd", "sd", "ds", "ss", "tq", "tqs", "tqa"]  # dense.dense, sparse.dense, dense.sparse, sparse.sparse, timesQsparse ndarray / scipy-sparse


def product(lib, path, A, B):
    """Run one storage path; A,B float arrays (m,k,4),(k,n,4). Returns float array (m,n,4)."""
    u = lib.utils
    if path == "dd":
        return G.from_quat(u.quat_matmat(G.to_quat(A), G.to_quat(B)))
    if path == "sd":
        r = u.quat_matmat(to_sparse(lib, A), G.to_quat(B))
        if type(r).__name__ == "SparseQuaternionMatrix":
            raise TypeError("sparse x dense returned a sparse matrix")
        return G.from_quat(r)
    if path == "ds":
        r = u.quat_matmat(G.to_quat(A), to_sparse(lib, B))
        return result_to_arr(r)
    if path == "ss":
        r = u.quat_matmat(to_sparse(lib, A), to_sparse(lib, B))
        if tuple(r.shape) != (A.shape[0], B.shape[1]):
            raise ValueError(f"sparse product .shape={r.shape}")
        return sparse_to_arr(r)
    if path == "tq":
        r = u.timesQsparse(*comps(A), *comps(B))
        return np.stack(r, axis=-1)
    if path == "tqs":
        r = u.timesQsparse(*[sp.csr_matrix(c) for c in comps(A)], *[sp.csr_matrix(c) for c in comps(B)])
        return np.stack([np.asarray(x) for x in r], axis=-1)
    if path == "tqa":  # scipy sparse ARRAYS (csr_array / coo_array), not sparse matrices
        r = u.timesQsparse(*[sp.csr_array(c) for c in comps(A)], *[sp.coo_array(c).tocsr() for c in comps(B)])
        return np.stack([np.asarray(x.toarray() if hasattr(x, "toarray") else x) for x in r], axis=-1)
    raise ValueError(path)


def exact_eq(got, exp):
    got = np.asarray(got)
    exp = np.asarray(exp, dtype=float)
    return got.shape == exp.shape and got.dtype == np.float64 and bool((got == exp).all())


CLASSES = ["generic", "ints", "pureimag", "axis", "zero", "huge", "tiny", "nonpos", "allneg", "neg_diag", "one_neg_entry"]


# ------------------------------------------------------------------ cases
def cases(tier, seed):
    out = []
    Sa = 2 if tier == "quick" else 4
    for m, k, n in itertools.product(range(1, Sa + 1), repeat=3):
        out.append({"key": f"a/basis/{m}x{k}x{n}", "grp": "a", "m": m, "k": k, "n": n})
    for m, k, n in itertools.product(range(1, 3), repeat=3):
        out.append({"key": f"b/additive/{m}x{k}x{n}", "grp": "b", "m": m, "k": k, "n": n})
    Sc = 3 if tier == "quick" else 4
    rows = 1 if tier == "quick" else 3
    for m, k, n in itertools.product(range(1, Sc + 1), repeat=3):
        for r in range(rows):
            for ca in CLASSES:
                out.append({"key": f"c/patterns/{m}x{k}x{n}/row={r}/{ca}", "grp": "c", "m": m, "k": k, "n": n, "row": r, "ca": ca})
    for m, n in itertools.product(range(1, Sc + 1), repeat=2):
        out.append({"key": f"e/norm/{m}x{n}", "grp": "e", "m": m, "n": n})
    out.append({"key": "s/scalar_and_vector_forms", "grp": "s"})
    # component-support masks: entries confined to span of a subset of {1,i,j,k}, all 15 x 15 mask pairs
    for m, k, n in itertools.product(range(1, 3), repeat=3):
        out.append({"key": f"m/masks/{m}x{k}x{n}", "grp": "m", "m": m, "k": k, "n": n})
    out.append({"key": "m/masks/3x3x3", "grp": "m", "m": 3, "k": 3, "n": 3})
    # large dimensions around every block size a panelled / chunked kernel could plausibly use: d-1, d, d+1 for d in powers of two,
    # 3*2^k and their small multiples up to 1024, placed in the inner, the row and the column dimension in turn (small integer entries: exact)
    bnds = sorted({d + e for d in (8, 16, 32, 48, 64, 96, 100, 128, 192, 256, 384, 512, 576, 768, 1000, 1024) for e in (-1, 0, 1)} | {200, 300, 400, 600, 640, 800, 960})
    if tier == "quick":
        bnds = [d for d in bnds if d <= 1025]
    for d in bnds:
        out.append({"key": f"k/inner/{d}", "grp": "k", "m": 2, "k": d, "n": 1})
        if d <= 520:
            out.append({"key": f"k/rows/{d}", "grp": "k", "m": d, "k": 2, "n": 1})
            out.append({"key": f"k/cols/{d}", "grp": "k", "m": 1, "k": 2, "n": d})
    for d in (32, 64, 100, 128, 129):
        out.append({"key": f"k/cube/{d}", "grp": "k", "m": d, "k": d, "n": d})
    # every 0/1 selection matrix with exactly one 1 per row (n^n of them; permutations, staircases, repeated columns, ...) as one factor,
    # a generic matrix as the other, through every storage path: n = 2, 3 complete, n = 4 complete (256)
    for n in (2, 3, 4):
        out.append({"key": f"sel/n={n}", "grp": "sel", "n": n})
    # LARGE RESULTS (not large inner dimensions): m x 1 times 1 x n with m = 2^16 rows (and the transpose), every n in a contiguous range, so
    # that for any element-count block size E of a result-panelled kernel between 2^17 and 2^22 some n hits n = q * (E // m) + 1, + 0, - 1;
    # plus squarish results around the same counts.  Dense paths only (the result is dense).
    NB = 40 if tier == "quick" else 130
    for nn in range(2, NB + 1):
        out.append({"key": f"big/rows=65536/n={nn}", "grp": "big", "m": 65536, "k": 1, "n": nn})
        out.append({"key": f"big/cols=65536/m={nn}", "grp": "big", "m": nn, "k": 1, "n": 65536})
    for (mm, nn) in ((3000, 263), (3000, 262), (1024, 769), (1024, 768), (887, 887), (886, 888), (1024, 1025), (2048, 385), (513, 1537)) if tier != "quick" else ((3000, 263), (1024, 769), (887, 887)):
        out.append({"key": f"big/{mm}x{nn}", "grp": "big", "m": mm, "k": 2, "n": nn})
    # every pattern of component supports on tiny row / column shapes: the entries of A and B each confined to one of the 16 subsets of
    # {1,i,j,k} (value 1 on each active component), all combinations; (1x1)(1x2), (2x1)(1x1) complete, (1x2)(2x1) over five supports
    for shp in ("1x1x2", "2x1x1", "1x1x3", "1x2x1", "2x1x2"):
        out.append({"key": f"supp/{shp}", "grp": "supp", "shp": shp})
    # aliased operands (the same object on both sides) and non-canonical sparse storage
    for n in range(1, 5):
        out.append({"key": f"x/aliased_and_noncanonical/{n}", "grp": "x", "n": n})
    return out


def pattern(cls, m, n, fill):
    """returns (int array, exponent): matrix = ints * 2^e."""
    if cls == "generic":
        return fill.ints((m, n, 4), -100, 100), -4
    if cls == "ints":
        return fill.ints((m, n, 4), -3, 3), 0
    if cls == "pureimag":
        A = fill.ints((m, n, 4), -5, 5)
        A[..., 0] = 0
        return A, 0
    if cls == "axis":
        A = fill.ints((m, n, 4), -5, 5)
        ax = int(fill.ints((), 0, 3))
        for t in range(4):
            if t != ax:
                A[..., t] = 0
        return A, -1
    if cls == "zero":
        return np.zeros((m, n, 4), dtype=np.int64), 0
    if cls == "nonpos":  # no positive component anywhere, exact zeros present
        A = -np.abs(fill.ints((m, n, 4), -4, 4))
        A[0, 0, 1] = 0
        return A, 0
    if cls == "allneg":  # every component strictly negative
        return -(np.abs(fill.ints((m, n, 4), -4, 4)) + 1), -1
    if cls == "neg_diag":  # -I like: sparse planes with only negative stored entries and implicit zeros
        A = np.zeros((m, n, 4), dtype=np.int64)
        for i in range(min(m, n)):
            A[i, i, int(fill.ints((), 0, 3))] = -int(fill.ints((), 1, 3))
        return A, 0
    if cls == "one_neg_entry":
        A = np.zeros((m, n, 4), dtype=np.int64)
        A[m - 1, 0, 2] = -3
        return A, 0
    if cls == "huge":
        return fill.ints((m, n, 4), -7, 7), 300
    if cls == "tiny":
        return fill.ints((m, n, 4), -7, 7), -300
    raise ValueError(cls)


def run_case(case, seed):
    lib = load()
    grp = case["grp"]
    fails = []
    evals = 0
    nontriv = 0
    paths_seen = set()

    def check_product(A, B, Cexp, label, tags):
        nonlocal evals
        for path in PATHS:
            ok, got = call(product, lib, path, A, B)
            evals += 1
            paths_seen.add(path)
            if not ok:
                fails.append(fail("product_raised", f"{label} path={path}: {type(got).__name__}: {got}", path=path, **tags))
            elif not exact_eq(got, Cexp):
                fails.append(
                    fail("product!=definition", f"{label} path={path}: got {np.asarray(got).tolist()} expected {np.asarray(Cexp).tolist()}"[:600], path=path, **tags)
                )

    if grp == "a":
        m, k, n = case["m"], case["k"], case["n"]
        units = list(zip(G.SIGNED_UNITS, G.SIGNED_NAMES)) if (m, k, n) == (1, 1, 1) else list(zip(G.UNITS, G.UNIT_NAMES))
        for (a, b), (c, d) in itertools.product(itertools.product(range(m), range(k)), itertools.product(range(k), range(n))):
            for (u, un), (v, vn) in itertools.product(units, units):
                A = np.zeros((m, k, 4))
                B = np.zeros((k, n, 4))
                A[a, b] = u
                B[c, d] = v
                Cexp = np.zeros((m, n, 4))
                if b == c:
                    Cexp[a, d] = O.qmul(u, v)
                    nontriv += len(PATHS)
                check_product(A, B, Cexp, f"A={un}E{a}{b} B={vn}E{c}{d}", {"grp": "a"})
    elif grp == "b":
        m, k, n = case["m"], case["k"], case["n"]
        basisA = [(p, u) for p in itertools.product(range(m), range(k)) for u in range(4)]
        basisB = [(p, u) for p in itertools.product(range(k), range(n)) for u in range(4)]

        def mk(shape, items):
            X = np.zeros(shape + (4,), dtype=np.int64)
            for (p, u) in items:
                X[p] += G.UNITS[u]
            return X

        for x, y in itertools.combinations_with_replacement(basisA, 2):
            A = mk((m, k), [x, y])
            for z in basisB:
                B = mk((k, n), [z])
                Cexp = O.qmatmul(A, B).astype(float)
                nontriv += len(PATHS) if Cexp.any() else 0
                check_product(A.astype(float), B.astype(float), Cexp, f"A=sum{[x, y]} B={z}", {"grp": "b"})
        for x, y in itertools.combinations_with_replacement(basisB, 2):
            B = mk((k, n), [x, y])
            for z in basisA:
                A = mk((m, k), [z])
                Cexp = O.qmatmul(A, B).astype(float)
                nontriv += len(PATHS) if Cexp.any() else 0
                check_product(A.astype(float), B.astype(float), Cexp, f"A={z} B=sum{[x, y]}", {"grp": "b"})
    elif grp == "c":
        m, k, n = case["m"], case["k"], case["n"]
        fill = G.Fill(seed + 7919 * case["row"], stream=hash_tag(case["key"]))
        u = lib.utils
        for ca, cb in itertools.product([case["ca"]], CLASSES):
            Ai, ea = pattern(ca, m, k, fill)
            Bi, eb = pattern(cb, k, n, fill)
            A = np.ldexp(Ai.astype(float), ea)
            B = np.ldexp(Bi.astype(float), eb)
            Ci = O.qmatmul(Ai, Bi)
            Cexp = np.ldexp(np.array(Ci, dtype=float), ea + eb)
            tags = {"grp": "c", "ca": ca, "cb": cb}
            nontriv += len(PATHS) if Cexp.any() else 0
            check_product(A, B, Cexp, f"{ca}x{cb}", tags)
            # (d) conjugate transpose: involution, matches definition, reverses products
            AH_exp = O.qH(A)
            Aq = G.to_quat(A)
            ok, AH = call(u.quat_hermitian, Aq)
            evals += 1
            if not ok or not exact_eq(G.from_quat(AH), AH_exp):
                fails.append(fail("hermitian_dense", f"{ca}: quat_hermitian != conj transpose", **tags))
            else:
                ok2, AHH = call(u.quat_hermitian, AH)
                if not ok2 or not exact_eq(G.from_quat(AHH), A):
                    fails.append(fail("hermitian_involution_dense", f"{ca}", **tags))
            As = to_sparse(lib, A)
            for nm, f in (
                ("quat_hermitian", lambda S: u.quat_hermitian(S)),
                ("conj.T", lambda S: S.conjugate().transpose()),
                ("T.conj", lambda S: S.transpose().conjugate()),
            ):
                ok, SH = call(f, As)
                evals += 1
                if not ok or tuple(SH.shape) != (k, m) or not exact_eq(sparse_to_arr(SH), AH_exp):
                    fails.append(fail("hermitian_sparse", f"{ca} via {nm}", via=nm, **tags))
                else:
                    ok2, SHH = call(f, SH)
                    if not ok2 or tuple(SHH.shape) != (m, k) or not exact_eq(sparse_to_arr(SHH), A):
                        fails.append(fail("hermitian_involution_sparse", f"{ca} via {nm}", via=nm, **tags))
            if cb in ("generic", "ints"):
                for lay in ("F", "T", "view", "ro"):
                    ok, got = call(lambda: G.from_quat(u.quat_matmat(relayout(G.to_quat(A), lay), relayout(G.to_quat(B), lay))))
                    evals += 1
                    if not ok or not exact_eq(got, Cexp):
                        fails.append(fail("product!=definition", f"{ca}x{cb} operands in memory layout {lay}", path="dd", layout=lay, **tags))
                    ok, got = call(lambda: G.from_quat(u.quat_hermitian(relayout(G.to_quat(A), lay))))
                    if not ok or not exact_eq(got, AH_exp):
                        fails.append(fail("hermitian_dense", f"{ca} in memory layout {lay}", layout=lay, **tags))
            # (AB)^H = B^H A^H through every path
            BH_exp = O.qH(B)
            CH_exp = O.qH(Cexp)
            check_product(BH_exp, AH_exp, CH_exp, f"({ca}x{cb})^H", {**tags, "reverse": True})
    elif grp == "e":
        m, n = case["m"], case["n"]
        fill = G.Fill(seed, stream=hash_tag(case["key"]))
        u = lib.utils
        pool = []
        for cls in CLASSES:
            Ai, e = pattern(cls, m, n, fill)
            pool.append((cls, Ai, e))
        for cls, Ai, e in pool:
            A = np.ldexp(Ai.astype(float), e)
            exact = math.sqrt(O.fro2_exact(Ai)) * (2.0 ** e) if abs(e) < 200 else math.ldexp(math.sqrt(O.fro2_exact(Ai)), e)
            tol = 16 * O.U * 4 * m * n * max(exact, 0.0)
            vals = {}
            Aq = G.to_quat(A)
            for nm, f in (
                ("fro_dense", lambda: u.quat_frobenius_norm(Aq)),
                ("fro_sparse", lambda: u.quat_frobenius_norm(to_sparse(lib, A))),
                ("normQ", lambda: u.normQ(Aq)),
                ("normQsparse", lambda: u.normQsparse(*comps(A))),
                ("normQsparse_sp", lambda: u.normQsparse(*[sp.csr_matrix(c) for c in comps(A)])),
                ("normQsparse_csr_array", lambda: u.normQsparse(*[sp.csr_array(c) for c in comps(A)])),
                ("normQsparse_coo_array", lambda: u.normQsparse(*[sp.coo_array(c) for c in comps(A)])),
                ("fro_dense_H", lambda: u.quat_frobenius_norm(u.quat_hermitian(Aq))),
                ("fro_sparse_H", lambda: u.quat_frobenius_norm(u.quat_hermitian(to_sparse(lib, A)))),
                ("matrix_norm", lambda: u.matrix_norm(Aq)),
            ):
                ok, v = call(f)
                evals += 1
                if not ok:
                    fails.append(fail("norm_raised", f"{nm} on {cls}: {v}", fn=nm, cls=cls))
                    continue
                if not isinstance(v, (int, float, np.floating, np.integer)) and not (isinstance(v, np.ndarray) and v.ndim == 0):
                    fails.append(fail("norm_not_a_scalar", f"{nm} on {cls} returned {type(v).__name__}", fn=nm, cls=cls))
                    continue
                vals[nm] = float(v)
                if not (abs(float(v) - exact) <= tol):
                    fails.append(fail("frobenius!=definition", f"{nm} on {cls}: {float(v)!r} vs exact {exact!r}", fn=nm, cls=cls))
            nontriv += 1 if exact > 0 else 0
            # unitary invariance with exactly-unitary monomial matrices
            for side, dim in (("L", m), ("R", n)):
                monos = list(G.all_monomials(dim)) if dim <= 2 else list(G.all_monomials(dim))[:: 97]
                for p, ph, Mq in monos:
                    Mf = Mq.astype(float)
                    ok, P = call(u.quat_matmat, G.to_quat(Mf), Aq) if side == "L" else call(u.quat_matmat, Aq, G.to_quat(Mf))
                    evals += 1
                    if not ok:
                        fails.append(fail("product_raised", f"unitary {side}: {P}", cls=cls))
                        continue
                    v = float(u.quat_frobenius_norm(P))
                    if not (abs(v - exact) <= tol):
                        fails.append(fail("norm_unitary_invariance", f"{side} monomial perm={p} phases={ph} cls={cls}: {v!r} vs {exact!r}", cls=cls, side=side))
        # sub-multiplicativity on all ordered pairs (A m x n, B^H-shaped n x m from the pool)
        for (c1, A1, e1), (c2, A2, e2) in itertools.product(pool, pool):
            if abs(e1 + e2) > 500:
                continue
            A = np.ldexp(A1.astype(float), e1)
            B = np.ldexp(np.swapaxes(A2, 0, 1).astype(float), e2)
            ok, P = call(u.quat_matmat, G.to_quat(A), G.to_quat(B))
            evals += 1
            if ok:
                lhs = float(u.quat_frobenius_norm(P))
                rhs = float(u.quat_frobenius_norm(G.to_quat(A))) * float(u.quat_frobenius_norm(G.to_quat(B)))
                if not lhs <= rhs * (1 + 64 * O.U * m * n) + 0.0:
                    fails.append(fail("submultiplicative", f"{c1},{c2}: {lhs!r} > {rhs!r}", ca=c1, cb=c2))
    elif grp == "m":
        m, k, n = case["m"], case["k"], case["n"]
        fill = G.Fill(seed, stream=hash_tag(case["key"]))
        A0 = fill.ints((m, k, 4), -3, 3)
        B0 = fill.ints((k, n, 4), -3, 3)
        A0[A0 == 0] = 1
        B0[B0 == 0] = -2
        for ma, mb in itertools.product(G.COMPONENT_MASKS, G.COMPONENT_MASKS):
            Ai = G.apply_component_mask(A0, ma).astype(np.int64)
            Bi = G.apply_component_mask(B0, mb).astype(np.int64)
            Cexp = O.qmatmul(Ai, Bi).astype(float)
            nontriv += len(PATHS)
            check_product(Ai.astype(float), Bi.astype(float), Cexp, f"mask {G.mask_name(ma)} x {G.mask_name(mb)}", {"grp": "m", "ma": ma, "mb": mb})
    elif grp == "sel":
        n = case["n"]
        fill = G.Fill(seed, stream=hash_tag(case["key"]))
        Gi = fill.ints((n, n, 4), -3, 3)
        Gi[Gi == 0] = 2
        for cols in itertools.product(range(n), repeat=n):
            Si = np.zeros((n, n, 4), dtype=np.int64)
            for i, c in enumerate(cols):
                Si[i, c, 0] = 1
            for label, Ai, Bi in ((f"G x S{cols}", Gi, Si), (f"S{cols} x G", Si, Gi), (f"S{cols}^T x G", np.ascontiguousarray(Si.transpose(1, 0, 2)), Gi)):
                Cexp = O.qmatmul(Ai, Bi).astype(float)
                nontriv += len(PATHS)
                check_product(Ai.astype(float), Bi.astype(float), Cexp, label, {"grp": "sel"})
    elif grp == "k":
        m, k, n = case["m"], case["k"], case["n"]
        fill = G.Fill(seed, stream=hash_tag(case["key"]))
        Ai = fill.ints((m, k, 4), -2, 2)
        Bi = fill.ints((k, n, 4), -2, 2)
        # exact reference: four integer matrix products per component via the left-regular representation
        Cexp = np.zeros((m, n, 4), dtype=np.int64)
        for a in range(4):
            for b in range(4):
                sg, c = O.TABLE[a][b]
                Cexp[..., c] += sg * (Ai[..., a] @ Bi[..., b])
        nontriv += len(PATHS)
        check_product(Ai.astype(float), Bi.astype(float), Cexp.astype(float), f"{m}x{k}x{n} integer entries", {"grp": "k"})
    elif grp == "big":
        m, k, n = case["m"], case["k"], case["n"]
        fill = G.Fill(seed, stream=hash_tag(case["key"]))
        Ai = fill.ints((m, k, 4), -2, 2)
        Bi = fill.ints((k, n, 4), -2, 2)
        Ai[-1, :, 0] = 2  # last row / last column never zero
        Bi[:, -1, 0] = 2
        Cexp = np.zeros((m, n, 4), dtype=np.int64)
        for a in range(4):
            for b in range(4):
                sg, c = O.TABLE[a][b]
                Cexp[..., c] += sg * (Ai[..., a] @ Bi[..., b])
        for path in ("dd", "tq"):
            ok, got = call(product, lib, path, Ai.astype(float), Bi.astype(float))
            evals += 1
            nontriv += 1
            paths_seen.add(path)
            if not ok:
                fails.append(fail("product_raised", f"{m}x{k}x{n} path={path}: {type(got).__name__}: {got}", path=path, grp="big"))
            elif not exact_eq(got, Cexp.astype(float)):
                bad = np.argwhere((np.asarray(got) != Cexp).any(axis=-1))
                fails.append(fail("product!=definition", f"{m}x{k}x{n} path={path}: {len(bad)} wrong entries, first at {bad[0].tolist() if len(bad) else None}", path=path, grp="big"))
    elif grp == "supp":
        m, k, n = (int(t) for t in case["shp"].split("x"))
        full = list(range(16))
        five = [1, 2, 5, 10, 15]
        ea, eb = m * k, k * n
        dom_a = full if ea == 1 else (five if ea * eb > 3 else full)
        dom_b = full if (eb <= 2 and ea == 1) or (eb == 1) else five
        if ea == 2 and eb == 1:
            dom_a = full
        for sa in itertools.product(dom_a, repeat=ea):
            if not any(sa):
                continue
            Ai = np.zeros((m, k, 4), dtype=np.int64)
            for t, msk in enumerate(sa):
                for c in range(4):
                    if (msk >> c) & 1:
                        Ai[t // k, t % k, c] = 1
            for sb in itertools.product(dom_b, repeat=eb):
                if not any(sb):
                    continue
                Bi = np.zeros((k, n, 4), dtype=np.int64)
                for t, msk in enumerate(sb):
                    for c in range(4):
                        if (msk >> c) & 1:
                            Bi[t // n, t % n, c] = 1
                Cexp = O.qmatmul(Ai, Bi).astype(float)
                nontriv += len(PATHS)
                check_product(Ai.astype(float), Bi.astype(float), Cexp, f"supports A={sa} B={sb}", {"grp": "supp"})
                if len(fails) > 40:
                    break
            if len(fails) > 40:
                break
    elif grp == "x":
        n = case["n"]
        u = lib.utils
        fill = G.Fill(seed, stream=hash_tag(case["key"]))
        for rep in range(3):
            Ai = fill.ints((n, n, 4), -4, 4)
            A = Ai.astype(float)
            Cexp = O.qmatmul(Ai, Ai).astype(float)
            nontriv += 1
            # the very same object as both operands
            Aq = G.to_quat(A)
            ok, got = call(lambda: G.from_quat(u.quat_matmat(Aq, Aq)))
            evals += 1
            if not ok or not exact_eq(got, Cexp):
                fails.append(fail("product!=definition", f"quat_matmat(A, A) with the same object, n={n}", path="dd", aliased=True))
            As = to_sparse(lib, A)
            ok, got = call(lambda: sparse_to_arr(u.quat_matmat(As, As)))
            evals += 1
            if not ok or not exact_eq(got, Cexp):
                fails.append(fail("product!=definition", f"quat_matmat(S, S) with the same sparse object, n={n}", path="ss", aliased=True))
            ok, got = call(lambda: G.from_quat(u.quat_matmat(As, Aq)))
            evals += 1
            if not ok or not exact_eq(got, Cexp):
                fails.append(fail("product!=definition", f"sparse x dense of the same data, n={n}", path="sd", aliased=True))
            ok, got = call(lambda: np.stack(u.timesQsparse(*comps(A), *comps(A)), -1))
            evals += 1
            if not ok or not exact_eq(got, Cexp):
                fails.append(fail("product!=definition", f"timesQsparse with the same planes, n={n}", path="tq", aliased=True))
            # (S^H then S reused): conjugate / transpose must not modify the operand
            before = sparse_to_arr(As).copy()
            ok, SH = call(u.quat_hermitian, As)
            evals += 1
            if not ok or not exact_eq(sparse_to_arr(SH), O.qH(A)) or not exact_eq(sparse_to_arr(As), before):
                fails.append(fail("hermitian_sparse", f"quat_hermitian(S) wrong or modified S, n={n}", via="reuse"))
            ok, got = call(lambda: sparse_to_arr(u.quat_matmat(u.quat_hermitian(As), As)))
            evals += 1
            if not ok or not exact_eq(got, O.qmatmul(O.qH(Ai).astype(np.int64), Ai).astype(float)):
                fails.append(fail("product!=definition", f"S^H S after reusing S, n={n}", path="ss", aliased=True))
            # Gram-type products: the second operand is EXACTLY the conjugate transpose of the first (A^H A, A A^H, H H for Hermitian H,
            # rectangular too), through every storage path
            for (mm, nn) in ((n, n), (n + 1, n), (n, n + 2)):
                Gi = fill.ints((mm, nn, 4), -4, 4)
                Gi[Gi == 0] = 3
                GH = (O.qH(Gi)).astype(np.int64)
                for label, Li, Ri in ((f"A^H A {mm}x{nn}", GH, Gi), (f"A A^H {mm}x{nn}", Gi, GH)):
                    check_product(Li.astype(float), Ri.astype(float), O.qmatmul(Li, Ri).astype(float), label, {"grp": "x", "gram": True})
            Hi = Ai + O.qH(Ai).astype(np.int64)
            for t in range(n):
                Hi[t, t, 1:] = 0
            check_product(Hi.astype(float), Hi.astype(float), O.qmatmul(Hi, Hi).astype(float), "H H (Hermitian)", {"grp": "x", "gram": True})
            ok, got = call(lambda: G.from_quat(u.quat_matmat(u.quat_hermitian(Aq), Aq)))
            evals += 1
            if not ok or not exact_eq(got, O.qmatmul(O.qH(Ai).astype(np.int64), Ai).astype(float)):
                fails.append(fail("product!=definition", f"quat_matmat(quat_hermitian(A), A), n={n}", path="dd", aliased=True))
            # non-canonical CSR storage: every entry stored as two summands at the same position
            def noncanon(P):
                r, c = np.nonzero(np.ones_like(P))
                d1 = np.floor(P[r, c] / 2.0)
                d2 = P[r, c] - d1
                rows = np.concatenate([r, r])
                cols = np.concatenate([c, c])
                order = np.lexsort((cols, rows))
                data = np.concatenate([d1, d2])[order]
                indptr = np.concatenate([[0], np.cumsum(np.bincount(rows, minlength=P.shape[0]))])
                return sp.csr_matrix((data, cols[order], indptr), shape=P.shape)

            Snc = u.SparseQuaternionMatrix(*[noncanon(c) for c in comps(A)], (n, n))
            exactF = math.sqrt(O.fro2_exact(Ai))
            ok, v = call(u.quat_frobenius_norm, Snc)
            evals += 1
            if not ok or abs(float(v) - exactF) > 64 * O.U * 4 * n * n * max(exactF, 1.0):
                fails.append(fail("frobenius!=definition", f"sparse matrix with duplicate stored entries: {v!r} vs {exactF!r}", fn="fro_sparse", cls="noncanonical"))
            ok, got = call(lambda: G.from_quat(u.quat_matmat(Snc, Aq)))
            evals += 1
            if not ok or not exact_eq(got, Cexp):
                fails.append(fail("product!=definition", f"non-canonical sparse x dense, n={n}", path="sd", cls="noncanonical"))
    elif grp == "s":
        # timesQsparse scalar x matrix, matrix x scalar, 1-D row x matrix forms used by the Krylov kernels
        u = lib.utils
        fill = G.Fill(seed, stream=hash_tag(case["key"]))
        for m, n in itertools.product(range(1, 4), repeat=2):
            for un_i, uq in enumerate(G.SIGNED_UNITS):
                for rep in range(2):
                    q = uq.astype(float) * (1.0 if rep == 0 else 0.5) + (0 if rep == 0 else np.array([0.25, 0, 0.5, 0]))
                    Cm = fill.quat(m, n, bits=3, lo=-20, hi=20)
                    qa = np.broadcast_to(q, (m, n, 4))
                    expL = O.qmul(qa, Cm)
                    expR = O.qmul(Cm, qa)
                    ok, r = call(u.timesQsparse, float(q[0]), float(q[1]), float(q[2]), float(q[3]), *comps(Cm))
                    evals += 1
                    nontriv += 1
                    if not ok or not exact_eq(np.stack(r, -1), expL):
                        fails.append(fail("timesQsparse_scalar_left", f"q={q.tolist()} {m}x{n}", form="scalar*matrix"))
                    ok, r = call(u.timesQsparse, *comps(Cm), float(q[0]), float(q[1]), float(q[2]), float(q[3]))
                    evals += 1
                    if not ok or not exact_eq(np.stack(r, -1), expR):
                        fails.append(fail("timesQsparse_scalar_right", f"q={q.tolist()} {m}x{n}", form="matrix*scalar"))
            # 1-D row (k,) times matrix (k,n) -> (n,)
            for k in range(1, 4):
                row = fill.quat(1, k, bits=3, lo=-20, hi=20)
                Cm = fill.quat(k, n, bits=3, lo=-20, hi=20)
                exp = O.qmatmul(row, Cm)[0]
                ok, r = call(u.timesQsparse, *[c[0] for c in comps(row)], *comps(Cm))
                evals += 1
                nontriv += 1
                if not ok or not exact_eq(np.stack(r, -1), exp):
                    fails.append(fail("timesQsparse_row_vector", f"k={k} n={n}", form="1d*matrix"))
    return {
        "key": case["key"],
        "fails": fails[:40],
        "evals": evals,
        "nontrivial_n": nontriv,
        "transitions": evals,
        "traces": evals - len(fails),
        "states": [case["key"] + "/" + p for p in sorted(paths_seen)] or [case["key"]],
        "obs": {"evals": evals, "fails": len(fails)},
        "sample": {"evals": evals, "paths": sorted(paths_seen)},
    }
