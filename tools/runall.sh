#!/bin/bash
# run every check's quick (or $1) tier for the seeds in $2 (default "0"); print one line per run
tier=${1:-quick}; seeds=${2:-0}
cd "$(dirname "$0")/.."
for s in $seeds; do
for c in C01 C02 C03 C04 C05 C06 C07 C08 C09 C10 C11 C12 C13 C14 C15 C16 C17 C18 C19 C20; do
  out=$(VERIF_SEED=$s /venv/bin/python -m qmc.run $c --tier $tier 2>&1); rc=$?
  echo "rc=$rc $(echo "$out" | tail -1)"
  echo "$out" | grep -E "^(VIOLATION|NONDET|INTERNAL)" | head -3
done; done
