#!/usr/bin/env python3
"""Regenerate /verif/MANIFEST.json from the table below (only checks whose module exists
under checks/ are claimed; everything else goes to not_applicable with the reason
"check not built yet" until it is).  Validates against the schema when jsonschema is present."""
import json
import os
import sys

VERIF = os.path.dirname(os.path.dirname(os.path.abspath(__file__)))
PY = "/venv/bin/python"

T = {
    "C01": ("4.C01", "exhaustive product-space exploration on the real code: all basis-unit pairs x positions x shapes x 5 storage paths, bit-exact against an integer Hamilton-table oracle",
            "Every (shape<=3, position, unit pair, storage path) cell and every dyadic pattern class is executed; results are exact in binary64 so any wrong sign/operand in any path is seen. Sizes >3 and non-dyadic values are not covered.",
            "oracle: Python ints + Hamilton table typed from i^2=j^2=k^2=ijk=-1; numpy elementwise arithmetic"),
    "C02": ("4.C02", "exhaustive enumeration of basis units x positions x shapes for every embedding, entrywise against an independently built left-regular representation",
            "Linearity + basis enumeration pins each embedding completely for shapes <=3; multiplicativity and *-compatibility on all basis pairs; bit-exact round trips incl. signed zeros/subnormals.",
            "oracle E.left built from the product table; numpy"),
    "C03": ("4.C03", "trajectory model checking: every iteration budget k=1..K of the real solver replayed against the scalar spectral recurrence on enumerated shapes/ranks/spectra",
            "For each enumerated (shape, rank, spectrum composition, factor kind, gamma, solver) the k-th iterate is compared with V diag(t_k/s) U^H for every k up to the horizon; monotonicity, residual truthfulness and stop accuracy are checked on every visited state.",
            "model: scalar maps t<-t(1+g(1-t)), t<-1-(1-t)^3; complex-adjoint LAPACK for pinv"),
    "C04": ("4.C04", "model checking of the restart loop: all iteration caps 0..n on enumerated system classes incl. exact-arithmetic monomial systems forcing every lucky-breakdown position; per-cycle optimum vs dense least-squares GMRES model",
            "Every breakdown position (cycle m, step j) for n<=4 is forced deterministically by construction; info fields are recomputed independently; per-cycle residuals replayed against the model.",
            "model: dense restarted GMRES on the complex adjoint; LAPACK lstsq/solve; fault injection: a false lucky breakdown at every (cycle, step) position and a failing LU inside the preconditioner; ill-conditioned cells with an 80-bit residual"),
    "C05": ("4.C05", "exhaustive exploration over all singular-value multiplicity compositions x shapes x factor kinds x truncation ranks",
            "All compositions of min(m,n) into clusters (incl. trailing zero clusters) for shapes <=4 (5 thorough) are executed against prescribed spectra.",
            "oracle: prescribed factors; svals via complex adjoint"),
    "C06": ("4.C06", "exhaustive exploration over shape x zero-column masks x duplicate-column positions x entry classes",
            "All tall/square/wide shapes <=4 (5), every zero-column bit mask and every duplicated column position; clause oracle (orthonormal Q, triangular R, A=QR).",
            "oracle arithmetic from the product table"),
    "C07": ("4.C07", "model checking of the pivot loop: inputs constructed to force each of the m! row-interchange sequences (m<=4 quick, m<=7 thorough), exact dyadic arithmetic incl. power-of-two scalings, both output modes, plus singular/tie/generic cells",
            "Every interchange sequence the pivot search can take for m<=7 (thorough; m<=4 quick) is executed on the real code; the model's predicted (L,U,P) is replayed bit-for-bit; clauses PA=LU / A=LU, unit-lower L with |l|<=1, upper U, loud-or-correct on singular input, input untouched.",
            "model M.perm (swap simulation), exact dyadic letters; oracle product from the Hamilton table"),
    "C08": ("4.C08", "exhaustive exploration over spectra compositions x sign/zero patterns x eigenbases, small-integer Hermitian matrices by support mask, scalings, rejection cells",
            "All multiplicity patterns for n<=4 (5) incl. repeated/zero eigenvalues, diagonal and already-tridiagonal inputs.",
            "oracle: eigvalsh of the complex adjoint"),
    "C09": ("4.C09", "exhaustive exploration over structure masks (zero-below-subdiagonal column masks, triangular, Hermitian, already-Hessenberg, scalings) for n<=5",
            "Every reflector branch (alpha=0, r=0) is forced by a mask; clauses unitarity, similarity, Hessenberg zeros, norm and adjoint spectrum.",
            "oracle: complex adjoint eigvals"),
    "C10": ("4.C10", "model checking of the QR iterations: invariant (unitary Q, A=QTQ^H, truthful converged flag) checked in the state reached after every iteration budget, for every variant x shift x input class",
            "Budget sweep 0,1,2,3,5,10,50,500 = trajectory of each variant; the invariant is evaluated in every visited state, converged or not.",
            "oracle arithmetic from the product table; eigvalsh of the complex adjoint"),
    "C11": ("4.C11", "exhaustive exploration over shape x rank x multiplicity patterns; algebraic laws on enumerated invertible factors",
            "rank-nullity, independence of null bases (rank of N via oracle), determinants vs prescribed spectra.",
            "oracle: svals/rank via complex adjoint"),
    "C12": ("4.C12", "exhaustive exploration of the parameter grid (shape, rank, R, oversample, n_iter/n_passes) x enumerated global seeds",
            "The global RNG is the only scheduler; seeds 0..S-1 are enumerated, every grid cell executed.",
            "oracle: svals via complex adjoint; adversarial-sketch cells: the harness reads the first sketch column of each enumerated seed and builds the input orthogonal to it"),
    "C13": ("4.C13", "model checking over enumerated seeds with the test sketch regenerated by the harness: sound per-run bound on the true residual whenever converged=True (n <= sketch size), enumerated-trace bound with measured slack for n > sketch size",
            "Each (solver, config, seed) run is a deterministic trace; converged => exact bound via sigma_min of the regenerated test sketch; history tail recomputed.",
            "oracle: pinv via complex adjoint; numpy MT19937 stream order"),
    "C14": ("4.C14", "explicit-state search over call histories (depth<=3, pool of 4-6 problems incl. a singular system and tight-budget cells) of each solver class/config with canonicalised __dict__ as state; references from fresh objects in pristine forked processes; in-place aliasing step; argument-hash / repeatability battery; two import styles",
            "All sequences of <=3 calls per cell are executed on live objects; each call's result must equal a fresh object's bitwise.",
            "differential oracle (the implementation itself on a fresh object); earlier results re-checked after later calls; read-only arguments; hash-salt independence across processes"),
    "C15": ("4.C15", "exhaustive exploration on exact letters: definitions with exact rational expected values, all pairs/triples of a pool for the inequalities, every ord spelling",
            "Norm definitions checked exactly on Pythagorean letters for all shapes <=3; axioms on all ordered pairs.",
            "oracle: exact integer sums; svals via complex adjoint"),
    "C16": ("4.C16", "exhaustive exploration over ordering/zero masks of the rotation generator, sub-diagonal zero masks of Hessenberg inputs, diagonal-modulus grids x 1..4 right-hand sides of the triangular solves",
            "Both ordering branches, all degenerate pairs, every subdiagonal zero mask for k<=4.",
            "oracle arithmetic from the product table"),
    "C17": ("4.C17", "exhaustive basis enumeration: every PSF tap impulse x every pixel impulse for all image/PSF sizes <=5 (6), against an index-level circular convolution; Tikhonov solve on the explicit matrix",
            "The operator is bilinear, so impulse x impulse pins it for each size pair.",
            "model M.conv: four-fold index loop; numpy.linalg.solve"),
    "C18": ("4.C18", "exhaustive exploration over all shapes <=4^3 x modes with index-coded entries; stubbed noise generator",
            "Every shape incl. singleton axes and all-distinct dimensions; index-level fibre definition.",
            "model M.fold: explicit index formula"),
    "C19": ("4.C19", "model checking over enumerated start vectors (seeds and Q8 basis starts via the create_test_matrix seam) x spectra x budgets",
            "The start vector is the only scheduler; enumerated, never sampled.",
            "model: power method on the prescribed spectrum; svals via complex adjoint"),
    "C20": ("4.C20", "exhaustive table: entry point x argument class, each cell executed once; out-of-domain must raise before mutating, in-domain boundary must not",
            "The table is the space and is complete in both tiers.",
            "table typed from docstrings and the property text"),
}

NOT_BUILT = "check not built yet in this round (planned, see DESIGN.md section 4)"


def main():
    checks = []
    na = []
    for pid, (ref, tech, text, note) in T.items():
        if os.path.exists(os.path.join(VERIF, "checks", pid.lower() + ".py")):
            checks.append(
                {
                    "property_id": pid,
                    "quick_cmd": f"{PY} -m qmc.run {pid} --tier quick",
                    "thorough_cmd": f"{PY} -m qmc.run {pid} --tier thorough",
                    "evidence_file": f"/verif/evidence/{pid}.json",
                    "replay_cmd_template": f"{PY} -m qmc.run {pid} --replay {{path}}",
                    "engine": "qmc",
                    "level_claimed": {"category": "model_checking", "text": text, "design_ref": ref},
                    "level_note": note + "; every numerical check also runs on the shared enumerated list of unusual-but-legal input variants (checks/common.py: component supports, ties, gradings, near-structured, sign patterns, layouts incl. read-only, ...); bounded: sizes, letters and seeds as listed in evidence.coverage.bounds",
                    "technique": tech,
                }
            )
        else:
            na.append({"property_id": pid, "reason": NOT_BUILT})
    man = {
        "version": 1,
        "setup_cmd": f"cd /verif && {PY} -m qmc.selftest",
        "hooks": {
            "guard": "QUATICA_VERIF",
            "enable": "no source hooks: checks import /repo's working tree directly (qmc.loader) and observe return values; control paths are observed from outside with sys.monitoring",
            "baseline_off_cmd": "cd /repo && /venv/bin/python -m pytest -ra -q -p no:cacheprovider --timeout=900 --continue-on-collection-errors",
            "source_commits": [],
            "add_only": True,
        },
        "engines": [
            {
                "name": "qmc",
                "path": "/verif/qmc",
                "serves_properties": [c["property_id"] for c in checks],
                "kind_free_text": "hand-written explicit-state / product-space explorer for Python: enumerates a finite case space, executes every case on the real code in 16 worker processes, evaluates reference-model oracles, determinism self-test, known-finding matching, replay files",
            }
        ],
        "checks": checks,
        "not_applicable": na,
        "notes": "All checks rebuild nothing: they import ${VERIF_REPO:-/repo}'s working tree. known_findings.txt lists recorded genuine defects (finding:) and repaired ones (fixed:).",
    }
    path = os.path.join(VERIF, "MANIFEST.json")
    with open(path, "w") as fh:
        json.dump(man, fh, indent=1)
    try:
        import jsonschema

        jsonschema.validate(man, json.load(open("/root/.vp/MANIFEST.schema.json")))
        print("MANIFEST.json valid;", len(checks), "checks,", len(na), "not_applicable")
    except ImportError:
        print("MANIFEST.json written (jsonschema not available here)")


if __name__ == "__main__":
    sys.exit(main())
