#!/usr/bin/env python3
"""Measure which lines/branches of the library the quick tiers execute (single process, coverage.py).
Usage: tools/covrun.py [CNN ...]   -> prints missing lines per anchored file.  Diagnostic only."""
import importlib, os, sys, time
os.environ["VERIF_NO_EVIDENCE"] = "1"
os.environ.setdefault("OMP_NUM_THREADS", "1")
VERIF = os.path.dirname(os.path.dirname(os.path.abspath(__file__)))
sys.path.insert(0, VERIF)
import coverage
cov = coverage.Coverage(branch=True, include=["/repo/quatica/*", "/repo/applications/image_deblurring/script_image_deblurring.py"], data_file="/root/scratch/.cov_qmc")
cov.start()
from qmc import run as R
props = sys.argv[1:] or [f"C{i:02d}" for i in range(1, 21)]
for p in props:
    t0 = time.time()
    mod = importlib.import_module("checks." + p.lower())
    cases = mod.cases("quick", 0)
    R._init_worker("checks." + p.lower(), 0, quiet=True)
    stride = max(1, len(cases) // 400) if p in ("C13", "C04", "C14") else 1
    n = 0
    for c in cases[::stride]:
        r = R._run_one(c)
        n += 1
        if "internal_error" in r:
            sys.stderr.write(r["internal_error"][-800:])
            break
    sys.stderr.write(f"{p}: {n} cases in {time.time()-t0:.0f}s\n")
cov.stop()
cov.save()
import io
buf = io.StringIO()
cov.report(file=buf, show_missing=True, skip_empty=True)
sys.stderr.write(buf.getvalue())
