#!/usr/bin/env python3
"""Print a markdown table of the seeded changes under /verif/seeded (from their meta.json)."""
import glob, json, os
rows = []
for d in sorted(glob.glob(os.path.join(os.path.dirname(os.path.dirname(os.path.abspath(__file__))), "seeded", "*"))):
    m = json.load(open(os.path.join(d, "meta.json")))
    c = m.get("confirmed_by_verifier", {})
    caught = ", ".join(m.get("caught_by", [])) or "MISSED"
    rows.append(f"| {os.path.basename(d)} | {m.get('summary','').replace('|','/')[:170]} | {m.get('needs','').replace('|','/')[:150]} | {c.get('repo_tests_result','')[:40]} | {caught} |")
print("| id | change | needs | repository tests with the change | caught by |\n|---|---|---|---|---|")
print("\n".join(rows))
