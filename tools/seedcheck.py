#!/usr/bin/env python3
"""Confirm an independently seeded change and run the checks against it.

  tools/seedcheck.py <dir with patch.diff demo.py meta.json> <name> CHECK [CHECK...] [--tests "pytest args"] [--tier quick]

Steps (all on scratch copies under /root/scratch, /repo is never touched):
  1. demo.py on a clean copy of /repo's HEAD working tree  -> must exit 0
  2. demo.py on the copy with patch.diff applied             -> must exit 1
  3. the repository tests named in --tests (or in meta.json) on the patched copy -> must pass
  4. each CHECK's tier with VERIF_REPO=<patched copy>        -> reported (exit 1 = caught)
  5. the material is copied to /verif/seeded/<name>/ with the observed results in meta.json
"""
import argparse
import json
import os
import shutil
import subprocess
import sys

VERIF = os.path.dirname(os.path.dirname(os.path.abspath(__file__)))
PY = "/venv/bin/python"


def copy_repo(dst):
    shutil.rmtree(dst, ignore_errors=True)
    os.makedirs(dst)
    files = subprocess.check_output(["git", "-C", "/repo", "ls-files", "-z"]).decode().split("\0")
    for f in files:
        if f and (f.startswith(("quatica/", "applications/", "tests/")) or "/" not in f) and not f.endswith((".png", ".jpg", ".pdf", ".ipynb")):
            d = os.path.join(dst, f)
            os.makedirs(os.path.dirname(d), exist_ok=True)
            shutil.copy2(os.path.join("/repo", f), d)


def main():
    ap = argparse.ArgumentParser()
    ap.add_argument("src")
    ap.add_argument("name")
    ap.add_argument("checks", nargs="+")
    ap.add_argument("--tests")
    ap.add_argument("--tier", default="quick")
    ap.add_argument("--seeds", default="0,1")
    a = ap.parse_args()
    meta = json.load(open(os.path.join(a.src, "meta.json")))
    clean, mut = f"/root/scratch/seed-clean-{a.name}", f"/root/scratch/seed-mut-{a.name}"
    copy_repo(clean)
    copy_repo(mut)
    r = subprocess.run(["git", "apply", "--unsafe-paths", "--directory", mut, os.path.abspath(os.path.join(a.src, "patch.diff"))], cwd="/", capture_output=True, text=True)
    if r.returncode != 0:
        r = subprocess.run(["patch", "-p1", "-d", mut, "-i", os.path.abspath(os.path.join(a.src, "patch.diff"))], capture_output=True, text=True)
        if r.returncode != 0:
            print("PATCH FAILED", r.stdout[-500:], r.stderr[-500:])
            return 3
    res = {}
    for label, d in (("clean", clean), ("patched", mut)):
        env = dict(os.environ, REPO_UNDER_TEST=d, PYTHONPATH=f"{d}:{d}/quatica", MPLBACKEND="Agg")
        rr = subprocess.run([PY, os.path.abspath(os.path.join(a.src, "demo.py"))], env=env, capture_output=True, text=True, cwd=d, timeout=1800)
        res[f"demo_{label}_exit"] = rr.returncode
        res[f"demo_{label}_tail"] = (rr.stdout + rr.stderr)[-300:]
    tests = a.tests
    if tests is None:
        # derive from meta: take test file names mentioned in tests_run
        import re

        names = sorted(set(re.findall(r"tests/[\w/]+\.py", " ".join(meta.get("tests_run", [])))))
        names = [n for n in names if "qgmres_large" not in n]
        tests = " ".join(names)
    if tests:
        env = dict(os.environ, PYTHONPATH=f"{mut}:{mut}/quatica", MPLBACKEND="Agg")
        rr = subprocess.run(f"cd {mut} && {PY} -m pytest -q -p no:cacheprovider --timeout=900 {tests} 2>&1 | tail -1", shell=True, env=env, capture_output=True, text=True)
        res["repo_tests"] = tests
        res["repo_tests_result"] = rr.stdout.strip()
    verdicts = {}
    for c in a.checks:
        for seed in a.seeds.split(","):
            env = dict(os.environ, VERIF_REPO=mut, VERIF_NO_EVIDENCE="1", VERIF_SEED=seed, VERIF_NO_DETERMINISM_TEST="1")
            rr = subprocess.run([PY, "-m", "qmc.run", c, "--tier", a.tier], cwd=VERIF, env=env, capture_output=True, text=True)
            lines = rr.stdout.strip().splitlines()
            first = next((l.strip() for l in lines if l.startswith("  case=")), "")
            verdicts[f"{c}@seed{seed}"] = {"exit": rr.returncode, "first": first[:260]}
            if rr.returncode not in (0, 1):
                verdicts[f"{c}@seed{seed}"]["stderr"] = (rr.stdout[-600:] + rr.stderr[-600:])
    res["checks"] = verdicts
    caught = any(v["exit"] == 1 for v in verdicts.values())
    ok = res["demo_clean_exit"] == 0 and res["demo_patched_exit"] != 0
    print(json.dumps(res, indent=1)[:3000])
    print(f"SEED {a.name}: demo_ok={ok} tests='{res.get('repo_tests_result', 'n/a')}' caught={caught}")
    dst = os.path.join(VERIF, "seeded", a.name)
    os.makedirs(dst, exist_ok=True)
    for f in ("patch.diff", "demo.py"):
        shutil.copy2(os.path.join(a.src, f), os.path.join(dst, f))
    meta["confirmed_by_verifier"] = res
    meta["caught_by"] = sorted({k.split("@")[0] for k, v in verdicts.items() if v["exit"] == 1})
    json.dump(meta, open(os.path.join(dst, "meta.json"), "w"), indent=1)
    shutil.rmtree(clean, ignore_errors=True)
    shutil.rmtree(mut, ignore_errors=True)
    return 0


if __name__ == "__main__":
    sys.exit(main())
