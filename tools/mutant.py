#!/usr/bin/env python3
"""Run checks against a mutated scratch copy of the repository (never touches /repo).

  tools/mutant.py --name NAME (--patch FILE | --sub 'relpath:::old:::new' ...) [--tests 'pytest args'] CHECK...

Copies tracked files of /repo to /root/scratch/mut-NAME, applies the change, optionally runs
repository tests there (to show the mutant still passes them), runs each check's quick tier
with VERIF_REPO pointing at the copy (no evidence written), prints the verdicts, removes the copy.
"""
import argparse
import os
import shutil
import subprocess
import sys

VERIF = os.path.dirname(os.path.dirname(os.path.abspath(__file__)))
PY = "/venv/bin/python"


def main():
    ap = argparse.ArgumentParser()
    ap.add_argument("--name", required=True)
    ap.add_argument("--patch")
    ap.add_argument("--sub", action="append", default=[])
    ap.add_argument("--tests")
    ap.add_argument("--tier", default="quick")
    ap.add_argument("--seeds", default="0")
    ap.add_argument("--keep", action="store_true")
    ap.add_argument("checks", nargs="*")
    a = ap.parse_args()
    dst = f"/root/scratch/mut-{a.name}"
    shutil.rmtree(dst, ignore_errors=True)
    os.makedirs(dst)
    files = subprocess.check_output(["git", "-C", "/repo", "ls-files", "-z"]).decode().split("\0")
    keep = [f for f in files if f and (f.startswith(("quatica/", "applications/", "tests/")) or "/" not in f) and not f.endswith((".png", ".jpg", ".pdf", ".ipynb"))]
    for f in keep:
        d = os.path.join(dst, f)
        os.makedirs(os.path.dirname(d), exist_ok=True)
        shutil.copy2(os.path.join("/repo", f), d)
    if a.patch:
        r = subprocess.run(["git", "apply", "--unsafe-paths", "--directory", dst, os.path.abspath(a.patch)], cwd="/", capture_output=True, text=True)
        if r.returncode != 0:
            r = subprocess.run(["patch", "-p1", "-d", dst, "-i", os.path.abspath(a.patch)], capture_output=True, text=True)
            if r.returncode != 0:
                print("PATCH FAILED", r.stdout, r.stderr)
                return 3
    for sub in a.sub:
        rel, old, new = sub.split(":::")
        p = os.path.join(dst, rel)
        s = open(p).read()
        if s.count(old) != 1:
            print(f"SUB FAILED: {rel}: pattern occurs {s.count(old)} times")
            return 3
        open(p, "w").write(s.replace(old, new))
    rc_all = {}
    if a.tests:
        env = dict(os.environ, PYTHONPATH=dst)
        r = subprocess.run(f"cd {dst} && {PY} -m pytest -q -p no:cacheprovider -x --timeout=900 {a.tests} 2>&1 | tail -3", shell=True, env=env, capture_output=True, text=True)
        print("TESTS:", r.stdout.strip().replace("\n", " | "))
    for c in a.checks:
        for seed in a.seeds.split(","):
            env = dict(os.environ, VERIF_REPO=dst, VERIF_NO_EVIDENCE="1", VERIF_SEED=seed, VERIF_NO_DETERMINISM_TEST="1")
            r = subprocess.run([PY, "-m", "qmc.run", c, "--tier", a.tier], cwd=VERIF, env=env, capture_output=True, text=True)
            lines = r.stdout.strip().splitlines()
            viol = [l for l in lines if l.startswith("VIOLATION")]
            first = next((l for l in lines if l.startswith("  case=")), "")
            print(f"{a.name}: {c} seed={seed} exit={r.returncode} violations={len(viol)} {first.strip()[:220]}")
            if r.returncode not in (0, 1):
                print(r.stdout[-1500:], r.stderr[-1500:])
            rc_all[(c, seed)] = r.returncode
    if not a.keep:
        shutil.rmtree(dst, ignore_errors=True)
    return 0


if __name__ == "__main__":
    sys.exit(main())
