"""Reference models.  Nothing here imports quatica.

Quaternion arrays are plain ndarrays whose last axis holds (w, x, y, z).  Integer arrays
(dtype=object holding Python ints, or int64) are used for exact arithmetic on the dyadic
alphabets; float arrays for everything else.  The only trusted base is Python integers,
numpy elementwise arithmetic / einsum on small arrays, and LAPACK on *complex* matrices
(the library under test uses real LAPACK routines on its own real embedding).
"""
from __future__ import annotations

import math

import numpy as np

U = 2.0 ** -53  # unit roundoff
C = 2.0 ** 10  # default budget constant

# ------------------------------------------------------------------ H.table
# Hamilton product on the basis 1,i,j,k typed in from i^2=j^2=k^2=ijk=-1:
#   ij=k, jk=i, ki=j, ji=-k, kj=-i, ik=-j.
# TABLE[a][b] = (sign, index) with e_a * e_b = sign * e_index
TABLE = (
    ((+1, 0), (+1, 1), (+1, 2), (+1, 3)),  # 1*1, 1*i, 1*j, 1*k
    ((+1, 1), (-1, 0), (+1, 3), (-1, 2)),  # i*1, i*i, i*j=k, i*k=-j
    ((+1, 2), (-1, 3), (-1, 0), (+1, 1)),  # j*1, j*i=-k, j*j, j*k=i
    ((+1, 3), (+1, 2), (-1, 1), (-1, 0)),  # k*1, k*i=j, k*j=-i, k*k
)

# structure tensor S[a,b,c] = coefficient of e_c in e_a*e_b
STRUCT = np.zeros((4, 4, 4), dtype=np.int64)
for _a in range(4):
    for _b in range(4):
        _s, _c = TABLE[_a][_b]
        STRUCT[_a, _b, _c] = _s
STRUCT_F = STRUCT.astype(float)
CONJ = np.array([1, -1, -1, -1])


def qmul(p, q):
    """Elementwise Hamilton product of arrays (...,4) (broadcasting)."""
    p = np.asarray(p)
    q = np.asarray(q)
    S = STRUCT if (p.dtype.kind in "iO" and q.dtype.kind in "iO") else STRUCT_F
    return np.einsum("...a,...b,abc->...c", p, q, S)


def qmatmul(A, B):
    """Matrix product C_ij = sum_k A_ik * B_kj (Hamilton product, this order)."""
    A = np.asarray(A)
    B = np.asarray(B)
    if A.dtype.kind in "iO" and B.dtype.kind in "iO":
        # exact integer arithmetic (object arrays of Python ints never overflow)
        m, k, _ = A.shape
        k2, n, _ = B.shape
        assert k == k2
        Cm = np.zeros((m, n, 4), dtype=object)
        for a in range(4):
            for b in range(4):
                s, c = TABLE[a][b]
                Cm[:, :, c] += s * (A[:, :, a].astype(object) @ B[:, :, b].astype(object))
        return Cm
    return np.einsum("ika,kjb,abc->ijc", A.astype(float), B.astype(float), STRUCT_F)


def qconj(A):
    return np.asarray(A) * CONJ


def qH(A):
    """Conjugate transpose of a quaternion matrix (m,n,4) -> (n,m,4)."""
    return np.swapaxes(np.asarray(A), 0, 1) * CONJ


def qeye(n, dtype=float):
    E = np.zeros((n, n, 4), dtype=dtype)
    for i in range(n):
        E[i, i, 0] = 1
    return E


def qabs(A):
    return np.sqrt(np.sum(np.asarray(A, float) ** 2, axis=-1))


def fro(A):
    return float(np.sqrt(np.sum(np.asarray(A, float) ** 2)))


def fro2_exact(A):
    """Exact squared Frobenius norm of an integer quaternion array (Python int)."""
    return int(sum(int(v) * int(v) for v in np.asarray(A, dtype=object).reshape(-1)))


def is_finite(A):
    return bool(np.all(np.isfinite(np.asarray(A, float))))


# ------------------------------------------------------------------ E.left
def left4(q):
    """4x4 real matrix of x -> q*x built column by column from TABLE."""
    q = np.asarray(q)
    M = np.zeros((4, 4), dtype=q.dtype if q.dtype.kind in "iO" else float)
    for c in range(4):  # image of basis vector e_c: q*e_c
        for a in range(4):
            s, idx = TABLE[a][c]
            M[idx, c] += s * q[a]
    return M


def right4(q):
    """4x4 real matrix of x -> x*q."""
    q = np.asarray(q)
    M = np.zeros((4, 4), dtype=q.dtype if q.dtype.kind in "iO" else float)
    for c in range(4):
        for b in range(4):
            s, idx = TABLE[c][b]
            M[idx, c] += s * q[b]
    return M


def real_interleaved(A):
    """(4m x 4n) block matrix [L(A_ij)] — the entry-interleaved real representation."""
    A = np.asarray(A)
    m, n, _ = A.shape
    R = np.zeros((4 * m, 4 * n), dtype=A.dtype if A.dtype.kind in "iO" else float)
    for i in range(m):
        for j in range(n):
            R[4 * i : 4 * i + 4, 4 * j : 4 * j + 4] = left4(A[i, j])
    return R


def real_blocked(A):
    """Component-blocked real representation: perfect shuffle of real_interleaved."""
    A = np.asarray(A)
    m, n, _ = A.shape
    R = real_interleaved(A)
    rows = [4 * i + c for c in range(4) for i in range(m)]
    cols = [4 * j + c for c in range(4) for j in range(n)]
    return R[np.ix_(rows, cols)]


def complex_adjoint(A):
    """chi(A) = [[A1, A2], [-conj A2, conj A1]] with A = A1 + A2 j, A1 = w+xi, A2 = y+zi.

    Derivation (independent of the library): q = w+xi+yj+zk = (w+xi) + (y+zi) j since
    i*j = k.  For complex a, j a = conj(a) j, which gives the block form above and makes
    chi a *-homomorphism: chi(AB) = chi(A) chi(B), chi(A^H) = chi(A)^H.  Rectangular ok.
    """
    A = np.asarray(A, float)
    A1 = A[..., 0] + 1j * A[..., 1]
    A2 = A[..., 2] + 1j * A[..., 3]
    return np.block([[A1, A2], [-np.conj(A2), np.conj(A1)]])


def from_complex_adjoint(M):
    """Inverse of complex_adjoint on its image (reads the top block row)."""
    M = np.asarray(M)
    m2, n2 = M.shape
    m, n = m2 // 2, n2 // 2
    A1 = M[:m, :n]
    A2 = M[:m, n:]
    return np.stack([A1.real, A1.imag, A2.real, A2.imag], axis=-1)


# ------------------------------------------------------------------ S.*
def svals(A):
    """Quaternion singular values (descending) via the complex adjoint; pairing asserted."""
    A = np.asarray(A, float)
    m, n, _ = A.shape
    p = min(m, n)
    if p == 0:
        return np.zeros(0)
    s = np.linalg.svd(complex_adjoint(A), compute_uv=False)
    s2 = s.reshape(p, 2)
    scale = max(1.0, float(s[0])) if s[0] > 0 else 1.0
    if np.max(np.abs(s2[:, 0] - s2[:, 1])) > 1e-9 * scale:
        raise AssertionError("oracle: singular values of the complex adjoint do not pair")
    return s2.mean(axis=1)


def eigvals_herm(A):
    """Eigenvalues (ascending, each once) of a Hermitian quaternion matrix."""
    A = np.asarray(A, float)
    n = A.shape[0]
    M = complex_adjoint(A)
    M = 0.5 * (M + M.conj().T)
    w = np.linalg.eigvalsh(M)
    w2 = w.reshape(n, 2)
    return w2.mean(axis=1)


def spectrum_adjoint(A):
    """All 2n complex eigenvalues of chi(A) (a similarity invariant of A)."""
    return np.linalg.eigvals(complex_adjoint(np.asarray(A, float)))


def pinv(A, rcond=1e-12):
    A = np.asarray(A, float)
    return from_complex_adjoint(np.linalg.pinv(complex_adjoint(A), rcond=rcond))


def solve(A, B):
    A = np.asarray(A, float)
    B = np.asarray(B, float)
    return from_complex_adjoint(np.linalg.solve(complex_adjoint(A), complex_adjoint(B)))


def rank(A, tol=None):
    A = np.asarray(A, float)
    m, n, _ = A.shape
    s = svals(A)
    if len(s) == 0 or s[0] == 0:
        return 0
    if tol is None:
        tol = np.finfo(float).eps * max(m, n) * s[0]
    return int(np.sum(s > tol))


def cond(A):
    s = svals(A)
    s = s[s > 0]
    return float(s[0] / s[-1]) if len(s) else math.inf


def unitarity_defect(Q):
    """|| Q^H Q - I ||_F."""
    Q = np.asarray(Q, float)
    n = Q.shape[1]
    return fro(qmatmul(qH(Q), Q) - qeye(n))


def budget(*norms, dims=1, c=C):
    """Backward-error budget c*u*dims*prod(norms)."""
    s = 1.0
    for x in norms:
        s *= max(float(x), 0.0)
    return c * U * max(dims, 1) * s


# ------------------------------------------------------------------ self test
def selftest():
    one, i, j, k = (np.eye(4, dtype=np.int64)[t] for t in range(4))
    neg = lambda q: -q
    assert (qmul(i, i) == neg(one)).all() and (qmul(j, j) == neg(one)).all()
    assert (qmul(k, k) == neg(one)).all()
    assert (qmul(qmul(i, j), k) == neg(one)).all()
    assert (qmul(i, j) == k).all() and (qmul(j, i) == neg(k)).all()
    assert (qmul(j, k) == i).all() and (qmul(k, j) == neg(i)).all()
    assert (qmul(k, i) == j).all() and (qmul(i, k) == neg(j)).all()
    units = [s * e for s in (1, -1) for e in (one, i, j, k)]
    # associativity on all signed-unit triples; L is a homomorphism; chi too
    for a in units:
        for b in units:
            ab = qmul(a, b)
            assert (left4(ab) == left4(a) @ left4(b)).all()
            assert (left4(a * CONJ) == left4(a).T).all()
            A = a.reshape(1, 1, 4).astype(float)
            B = b.reshape(1, 1, 4).astype(float)
            assert np.allclose(
                complex_adjoint(qmatmul(A, B)), complex_adjoint(A) @ complex_adjoint(B)
            )
            assert np.allclose(complex_adjoint(qH(A)), complex_adjoint(A).conj().T)
            for c in units:
                assert (qmul(ab, c) == qmul(a, qmul(b, c))).all()
    # prescribed spectrum is reproduced
    rng = np.random.RandomState(12345)
    X = rng.randn(3, 3, 4)
    Qm, _ = np.linalg.qr(complex_adjoint(X))  # not structured; use a structured route:
    # build unitary by Householder in quaternion arithmetic
    w = rng.randn(3, 1, 4)
    Hh = qeye(3) - 2.0 * qmatmul(w, qH(w)) / fro(w) ** 2
    assert unitarity_defect(Hh) < 1e-13
    D = np.zeros((3, 3, 4))
    for t, v in enumerate((4.0, 2.0, 0.5)):
        D[t, t, 0] = v
    Aq = qmatmul(qmatmul(Hh, D), qH(Hh))
    assert np.allclose(svals(Aq), [4.0, 2.0, 0.5])
    assert np.allclose(eigvals_herm(Aq), [0.5, 2.0, 4.0])
    P = pinv(Aq)
    assert fro(qmatmul(Aq, P) - qeye(3)) < 1e-12
    assert from_complex_adjoint(complex_adjoint(X)).shape == X.shape
    assert np.allclose(from_complex_adjoint(complex_adjoint(X)), X)
    # real representations are homomorphisms and consistent with each other
    Y = rng.randn(3, 2, 4)
    assert np.allclose(real_interleaved(qmatmul(X, Y)), real_interleaved(X) @ real_interleaved(Y))
    assert np.allclose(real_blocked(qmatmul(X, Y)), real_blocked(X) @ real_blocked(Y))
    return True


if __name__ == "__main__":
    selftest()
    print("oracle selftest ok")
