"""setup_cmd: nothing to build; verify the oracle's own axioms and that the repo imports."""
import sys

from qmc import oracle


def main():
    oracle.selftest()
    from qmc.loader import load, repo_root

    ns = load("flat")
    print("qmc selftest ok; library loaded from", repo_root(), "modules:", sorted(k for k in vars(ns) if k != "style"))
    return 0


if __name__ == "__main__":
    sys.exit(main())
