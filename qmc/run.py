"""Explorer / runner: enumerates a check's finite case space, executes every case on the
real code in worker processes, evaluates the oracle, writes evidence, replays and verdict.

usage:  python -m qmc.run C07 [--tier quick|thorough] [--seed N] [--jobs N]
        python -m qmc.run C07 --replay replays/C07/<case>.json

exit 0  property held on everything explored (KNOWN-FINDING lines possible)
exit 1  at least one violation not listed in known_findings.txt (VIOLATION line printed)
exit 2  the check itself is broken (nondeterminism, internal error) — nothing is claimed
"""
from __future__ import annotations

import os

for _v in ("OMP_NUM_THREADS", "OPENBLAS_NUM_THREADS", "MKL_NUM_THREADS", "NUMEXPR_NUM_THREADS"):
    os.environ[_v] = "1"
os.environ.setdefault("PYTHONHASHSEED", "0")
os.environ.setdefault("MPLBACKEND", "Agg")
os.environ.setdefault("QUATICA_VERIF", "1")

import argparse
import hashlib
import importlib
import json
import multiprocessing as mp
import re
import shutil
import sys
import time
import traceback
import warnings

VERIF = os.path.dirname(os.path.dirname(os.path.abspath(__file__)))
if VERIF not in sys.path:
    sys.path.insert(0, VERIF)

KNOWN_FILE = os.path.join(VERIF, "known_findings.txt")
MAX_REPLAYS = 20


# ------------------------------------------------------------------ helpers for checks
def digest(*parts) -> str:
    import numpy as np

    h = hashlib.sha1()
    for p in parts:
        if isinstance(p, np.ndarray):
            h.update(str(p.shape).encode())
            h.update(str(p.dtype).encode())
            h.update(np.ascontiguousarray(p).tobytes())
        else:
            h.update(repr(p).encode())
        h.update(b"|")
    return h.hexdigest()[:16]


def fail(clause: str, detail: str = "", **tags) -> dict:
    return {"clause": clause, "detail": detail, "tags": tags}


def jsonable(x):
    import numpy as np

    if isinstance(x, np.ndarray):
        if x.dtype == object:
            return [jsonable(v) for v in x.tolist()]
        return x.tolist()
    if isinstance(x, (np.floating,)):
        return float(x)
    if isinstance(x, (np.integer,)):
        return int(x)
    if isinstance(x, (np.bool_,)):
        return bool(x)
    if isinstance(x, dict):
        return {str(k): jsonable(v) for k, v in x.items()}
    if isinstance(x, (list, tuple, set, frozenset)):
        return [jsonable(v) for v in x]
    if isinstance(x, float) and (x != x or x in (float("inf"), float("-inf"))):
        return repr(x)
    if isinstance(x, (str, int, float, bool)) or x is None:
        return x
    return repr(x)


def call(fn, *a, **kw):
    """Call library code; return (True, value) or (False, exception)."""
    try:
        with warnings.catch_warnings():
            warnings.simplefilter("ignore")
            return True, fn(*a, **kw)
    except Exception as e:  # noqa: BLE001 — every library exception is an observation
        return False, e


# ------------------------------------------------------------------ known findings
def load_known(prop: str) -> list[dict]:
    out = []
    if not os.path.exists(KNOWN_FILE):
        return out
    for line in open(KNOWN_FILE, encoding="utf-8"):
        line = line.strip()
        if not line or line.startswith("#") or line.startswith("fixed:"):
            continue
        if line.startswith("finding:"):
            ent = json.loads(line[len("finding:") :])
            if ent.get("property") == prop:
                out.append(ent)
    return out


def _match_value(cond, val) -> bool:
    if isinstance(cond, dict):
        for op, ref in cond.items():
            if val is None:
                return False
            if op == "ge" and not val >= ref:
                return False
            if op == "le" and not val <= ref:
                return False
            if op == "gt" and not val > ref:
                return False
            if op == "lt" and not val < ref:
                return False
            if op == "ne" and not val != ref:
                return False
        return True
    if isinstance(cond, list):
        return val in cond
    return val == cond


def match_known(f: dict, known: list[dict]):
    for ent in known:
        cl = ent.get("clauses")
        if cl and f["clause"] not in cl:
            continue
        tags = f.get("tags", {})
        if all(_match_value(c, tags.get(k)) for k, c in ent.get("match", {}).items()):
            return ent
    return None


# ------------------------------------------------------------------ worker side
_MOD = None
_SEED = 0


def _init_worker(modname: str, seed: int, quiet: bool = True):
    global _MOD, _SEED
    if quiet:
        devnull = os.open(os.devnull, os.O_WRONLY)
        os.dup2(devnull, 1)
    warnings.simplefilter("ignore")
    import numpy as np

    np.seterr(all="ignore")
    _MOD = importlib.import_module(modname)
    _SEED = seed
    if hasattr(_MOD, "init_worker"):
        _MOD.init_worker()


def _run_one(case: dict) -> dict:
    t0 = time.time()
    try:
        r = _MOD.run_case(case, _SEED + 7919 * int(case.get("_stream", 0)))
        r.setdefault("key", case["key"])
        r.setdefault("fails", [])
        r["wall"] = time.time() - t0
        return jsonable(r)
    except (TypeError, ValueError, AttributeError, IndexError, KeyError, ZeroDivisionError, ArithmeticError) as e:
        # Library calls are wrapped by `call`, so this is the CHECK failing to digest what the library returned (wrong type,
        # wrong shape, missing field ...).  On the unchanged tree this never happens (it would show in every run); on a changed
        # tree it means the returned value is not of the documented form, which breaks the property: report it as a failed clause.
        tb = traceback.format_exc()
        return jsonable({
            "key": case["key"],
            "fails": [fail("result_not_of_documented_form", "the check could not evaluate the returned value: " + tb.strip().splitlines()[-1] + " | " + " / ".join(l.strip() for l in tb.strip().splitlines()[-5:-1])[:400])],
            "wall": time.time() - t0,
            "digest": "crash:" + type(e).__name__,
            "obs": "crash:" + type(e).__name__,
        })
    except Exception:  # noqa: BLE001 — any other exception in check code is an internal error
        return {
            "key": case["key"],
            "internal_error": traceback.format_exc(),
            "fails": [],
            "wall": time.time() - t0,
        }


def _run_chunk(chunk: list) -> list:
    return [_run_one(c) for c in chunk]


def _safe_name(key: str) -> str:
    s = re.sub(r"[^A-Za-z0-9_.=,+-]", "_", key)
    if len(s) > 150:
        s = s[:120] + "_" + hashlib.sha1(key.encode()).hexdigest()[:12]
    return s


# ------------------------------------------------------------------ main
def run_check(prop: str, tier: str, seed: int, jobs: int, quiet: bool = True) -> int:
    modname = "checks." + prop.lower()
    mod = importlib.import_module(modname)
    t_start = time.time()
    cases = list(mod.cases(tier, seed))
    # thorough tier: the same enumerated structure under several independent fill streams (the enumerated structure does not
    # depend on the seed; only the "generic" numbers do).  Stream 0 keeps the plain keys.
    streams = int(os.environ.get("VERIF_THOROUGH_STREAMS", getattr(mod, "THOROUGH_STREAMS", 1))) if tier == "thorough" else 1
    if streams > 1:
        # (cases marked _fixed do not depend on the fill stream at all - exhaustively enumerated exact inputs - and run once)
        cases = cases + [dict(c, key=f"{c['key']}@fill{st}", _stream=st) for st in range(1, streams) for c in cases if not c.get("_fixed")]
    keys = [c["key"] for c in cases]
    if len(set(keys)) != len(keys):
        dup = [k for k in set(keys) if keys.count(k) > 1][:3]
        print(f"INTERNAL-ERROR property={prop} duplicate case keys {dup}")
        return 2
    budget_s = float(getattr(mod, "WALL_BUDGET", {}).get(tier, 600 if tier == "quick" else 3600))
    budget_s = float(os.environ.get("VERIF_WALL_BUDGET", budget_s))

    ctx = mp.get_context("fork")
    results: list[dict] = []
    capped = False
    chunk = max(1, min(16, len(cases) // (jobs * 8) or 1))
    with ctx.Pool(jobs, initializer=_init_worker, initargs=(modname, seed, quiet)) as pool:
        chunks = [cases[i : i + chunk] for i in range(0, len(cases), chunk)]
        it = pool.imap_unordered(_run_chunk, chunks, chunksize=1)  # chunksize=1 keeps the iterator's next(timeout)
        stall_s = float(os.environ.get("VERIF_STALL_TIMEOUT", "900"))
        pending: list = []
        while True:
            try:
                if not pending:
                    pending = list(it.next(timeout=stall_s))
                r = pending.pop()
            except StopIteration:
                break
            except mp.TimeoutError:
                # a worker died (e.g. killed for memory) or a case never returns: never hang, never claim anything
                pool.terminate()
                print(f"INTERNAL-ERROR property={prop} no result for {stall_s:.0f}s after {len(results)} of {len(cases)} cases (worker died or case stuck)")
                return 2
            results.append(r)
            if time.time() - t_start > budget_s:
                capped = True
                pool.terminate()
                break
    kidx = {k: i for i, k in enumerate(keys)}
    results.sort(key=lambda r: kidx[r["key"]])

    internal = [r for r in results if "internal_error" in r]
    if internal:
        print(f"INTERNAL-ERROR property={prop} case={internal[0]['key']}")
        print(internal[0]["internal_error"])
        return 2

    # determinism self-test: re-run a stride sample in a fresh process
    done = {r["key"]: r for r in results}
    sample_cases = [c for c in cases if c["key"] in done]
    stride = max(1, len(sample_cases) // 24)
    sample_cases = sample_cases[::stride][:24]
    if sample_cases and not os.environ.get("VERIF_NO_DETERMINISM_TEST"):
        with ctx.Pool(1, initializer=_init_worker, initargs=(modname, seed, quiet)) as pool:
            try:
                again = pool.map_async(_run_one, sample_cases).get(timeout=float(os.environ.get("VERIF_STALL_TIMEOUT", "900")))
            except mp.TimeoutError:
                pool.terminate()
                print(f"INTERNAL-ERROR property={prop} determinism self-test did not finish (worker died or case stuck)")
                return 2
        for r2 in again:
            r1 = done[r2["key"]]
            if r1.get("digest") != r2.get("digest") or r1.get("obs") != r2.get("obs") or [
                f["clause"] for f in r1["fails"]
            ] != [f["clause"] for f in r2["fails"]]:
                print(f"NONDETERMINISM property={prop} case={r2['key']}")
                print(json.dumps({"first": r1, "second": r2}, default=str)[:2000])
                return 2

    # verdicts
    known = load_known(prop)
    matched: dict[str, dict] = {}
    matched_counts: dict[str, int] = {}
    violations: list[tuple[dict, dict]] = []
    for r in results:
        for f in r["fails"]:
            ent = match_known(f, known)
            if ent is not None:
                matched[ent["id"]] = ent
                matched_counts[ent["id"]] = matched_counts.get(ent["id"], 0) + 1
            else:
                violations.append((r, f))

    rdir = os.path.join(VERIF, "replays", prop)
    shutil.rmtree(rdir, ignore_errors=True)
    case_by_key = {c["key"]: c for c in cases}
    printed = 0
    if violations:
        os.makedirs(rdir, exist_ok=True)
        seen_keys = []
        for r, f in sorted(violations, key=lambda rf: (len(rf[0]["key"]), rf[0]["key"])):
            if r["key"] in seen_keys:
                continue
            seen_keys.append(r["key"])
            if len(seen_keys) > MAX_REPLAYS:
                break
            path = os.path.join(rdir, _safe_name(r["key"]) + ".json")
            with open(path, "w") as fh:
                json.dump(
                    {
                        "property": prop,
                        "tier": tier,
                        "seed": seed,
                        "case": case_by_key[r["key"]],
                        "fails": r["fails"],
                        "sample": r.get("sample"),
                        "replay_cmd": f"/venv/bin/python -m qmc.run {prop} --replay {path}",
                    },
                    fh,
                    indent=1,
                    default=str,
                )
            print(f"VIOLATION property={prop} replay={path}")
            ff = [x for x in r["fails"]][:3]
            for x in ff:
                print(f"  case={r['key']} clause={x['clause']} {x.get('detail', '')[:300]}")
            printed += 1
    for eid, ent in matched.items():
        print(f"KNOWN-FINDING: property={prop} [{eid}] {ent['what']} (cases matched: {matched_counts[eid]})")

    # evidence
    nontrivial = {r.get("digest", r["key"]) for r in results if r.get("nontrivial", True) and not r.get("skipped") and "nontrivial_n" not in r}
    # checks that loop over many cells inside one case report measured counts instead
    evals_extra = sum(int(r.get("evals", 1)) - 1 for r in results)
    nontrivial_extra = sum(int(r["nontrivial_n"]) for r in results if "nontrivial_n" in r)
    states = set()
    transitions = 0
    traces = 0
    paths: dict[str, int] = {}
    skipped: dict[str, int] = {}
    for r in results:
        if r.get("skipped"):
            skipped[r["skipped"]] = skipped.get(r["skipped"], 0) + 1
            continue
        st = r.get("states")
        if isinstance(st, list):
            states.update(st)
        else:
            states.add(r.get("digest", r["key"]))
        transitions += int(r.get("transitions", 1))
        traces += int(r.get("traces", 0 if r["fails"] else 1))
        p = r.get("path")
        if p is not None:
            ps = p if isinstance(p, str) else json.dumps(p)
            paths[ps] = paths.get(ps, 0) + 1
    samples = []
    for r in results[:: max(1, len(results) // 4)][:4]:
        samples.append({"case": case_by_key[r["key"]], "observed": r.get("sample", r.get("obs"))})
    coverage = {
        "evaluations": len(results) + evals_extra,
        "distinct_nontrivial": len(nontrivial) + nontrivial_extra,
        "rule": getattr(mod, "RULE", ""),
        "samples": samples,
        "states": len(states),
        "transitions": transitions,
        "traces_validated_against_impl": traces,
        "exhaustive": (not capped) and bool(getattr(mod, "EXHAUSTIVE", True)),
        "cases_enumerated": len(cases),
        "cases_completed": len(results),
        "caps_hit": (["wall budget %.0fs: %d of %d cases completed" % (budget_s, len(results), len(cases))] if capped else []),
        "skipped": skipped,
        "known_findings_matched": matched_counts,
        "bounds": getattr(mod, "BOUNDS", {}).get(tier, "") + (f"; the whole enumerated structure under {streams} independent fill streams" if streams > 1 else ""),
        "determinism_selftest_cases": len(sample_cases),
    }
    if paths:
        coverage["distinct_paths"] = len(paths)
        coverage["paths"] = dict(sorted(paths.items(), key=lambda kv: -kv[1])[:60])
    if hasattr(mod, "summarize"):
        coverage.update(jsonable(mod.summarize(results)))
    ev = {
        "property_id": prop,
        "tier": tier,
        "seed": seed,
        "level": getattr(mod, "LEVEL", "model_checking"),
        "coverage": coverage,
        "assumptions": list(getattr(mod, "ASSUMPTIONS", [])),
        "wall_s": round(time.time() - t_start, 3),
        "violations": len({r["key"] for r, _ in violations}),
        "repo": os.environ.get("VERIF_REPO", "/repo"),
    }
    if not os.environ.get("VERIF_NO_EVIDENCE"):
        os.makedirs(os.path.join(VERIF, "evidence"), exist_ok=True)
        with open(os.path.join(VERIF, "evidence", prop + ".json"), "w") as fh:
            json.dump(ev, fh, indent=1, default=str)
    vac = ""
    if len(nontrivial) + nontrivial_extra < 2 or not states:
        vac = " VACUITY-WARNING"
    print(
        f"{prop} tier={tier} seed={seed} cases={len(results)}/{len(cases)} evals={len(results) + evals_extra} nontrivial={len(nontrivial) + nontrivial_extra} "
        f"states={len(states)} transitions={transitions} traces={traces} paths={len(paths)} "
        f"violations={ev['violations']} known={sum(matched_counts.values())} wall={ev['wall_s']}s"
        f"{' CAPPED' if capped else ''}{vac}"
    )
    return 1 if violations else 0


def replay(prop: str, path: str) -> int:
    data = json.load(open(path))
    modname = "checks." + prop.lower()
    _init_worker(modname, int(data.get("seed", 0)), quiet=False)
    r = _run_one(data["case"])
    if "internal_error" in r:
        print(r["internal_error"])
        return 2
    known = load_known(prop)
    bad = [f for f in r["fails"] if match_known(f, known) is None]
    for f in r["fails"]:
        print(("FAIL " if f in bad else "KNOWN ") + f["clause"], f.get("detail", ""))
    if bad:
        print(f"VIOLATION property={prop} replay={path}")
        return 1
    print("replay: case passes")
    return 0


def main(argv=None) -> int:
    ap = argparse.ArgumentParser()
    ap.add_argument("prop")
    ap.add_argument("--tier", default=os.environ.get("VERIF_TIER", "quick"))
    ap.add_argument("--seed", type=int, default=int(os.environ.get("VERIF_SEED", "0") or 0))
    ap.add_argument("--jobs", type=int, default=int(os.environ.get("VERIF_JOBS", "16")))
    ap.add_argument("--replay")
    ap.add_argument("--loud", action="store_true")
    a = ap.parse_args(argv)
    if a.tier not in ("quick", "thorough"):
        a.tier = "quick"
    if a.replay:
        return replay(a.prop.upper(), a.replay)
    return run_check(a.prop.upper(), a.tier, a.seed, a.jobs, quiet=not a.loud)


if __name__ == "__main__":
    sys.exit(main())
