"""qmc — bounded exhaustive exploration ("model checking") of QuatIca on the real code.

Modules:
  loader   imports the code under test from ${VERIF_REPO:-/repo}
  oracle   reference models written without importing anything from quatica
  gen      enumerated alphabets (letters, structure classes, fill table)
  run      explorer / runner / evidence / known findings / replays
"""
