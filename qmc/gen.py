"""Enumerated alphabets: letters, structure classes, deterministic fill table.

Nothing is drawn at random at run time.  "Generic" numbers come from `Fill(seed)`, a
documented integer recurrence (64-bit LCG, Knuth MMIX constants) whose stream is selected
by VERIF_SEED; the enumerated structure is the same for every seed.
"""
from __future__ import annotations

import itertools
import math

import numpy as np
import quaternion  # numpy-quaternion (the dtype), not the library under test

from . import oracle as O

# ------------------------------------------------------------------ letters
ONE = np.array([1, 0, 0, 0], dtype=np.int64)
QI = np.array([0, 1, 0, 0], dtype=np.int64)
QJ = np.array([0, 0, 1, 0], dtype=np.int64)
QK = np.array([0, 0, 0, 1], dtype=np.int64)
ZERO = np.zeros(4, dtype=np.int64)
UNITS = [ONE, QI, QJ, QK]
UNIT_NAMES = ["1", "i", "j", "k"]
SIGNED_UNITS = [s * u for u in UNITS for s in (1, -1)]
SIGNED_NAMES = [sg + nm for nm in UNIT_NAMES for sg in ("+", "-")]
Q8_LETTERS = [ZERO] + SIGNED_UNITS  # 9 letters


def to_quat(A):
    """float/int array (...,4) -> numpy quaternion array."""
    return quaternion.as_quat_array(np.ascontiguousarray(np.asarray(A, dtype=float)))


def from_quat(Q):
    """numpy quaternion array -> float array (...,4) (a copy)."""
    return np.array(quaternion.as_float_array(Q), dtype=float)


# ------------------------------------------------------------------ fill table
class Fill:
    """Deterministic stream of small integers (LCG x <- a x + c mod 2^64)."""

    A = 6364136223846793005
    Cc = 1442695040888963407
    M = 1 << 64

    def __init__(self, seed: int, stream: int = 0):
        self.x = (int(seed) * 0x9E3779B97F4A7C15 + int(stream) * 0xBF58476D1CE4E5B9 + 1) % self.M
        for _ in range(4):
            self._next()

    def _next(self) -> int:
        self.x = (self.A * self.x + self.Cc) % self.M
        return self.x >> 33  # 31 good bits

    def ints(self, shape, lo=-8, hi=8):
        n = int(np.prod(shape)) if shape != () else 1
        span = hi - lo + 1
        v = np.array([lo + self._next() % span for _ in range(n)], dtype=np.int64)
        return v.reshape(shape)

    def dyadic(self, shape, bits=4, lo=-24, hi=24):
        """numbers num/2^bits with lo<=num<=hi — exact in binary64."""
        return self.ints(shape, lo, hi).astype(float) / float(1 << bits)

    def quat(self, m, n, bits=4, lo=-24, hi=24):
        return self.dyadic((m, n, 4), bits, lo, hi)

    def quat_int(self, m, n, lo=-4, hi=4):
        return self.ints((m, n, 4), lo, hi)

    def unit(self, shape=()):
        """approximately uniform floats in (-1,1) with 31 bits (exact dyadic)."""
        n = int(np.prod(shape)) if shape != () else 1
        v = np.array([(self._next() / float(1 << 30)) - 1.0 for _ in range(n)])
        return v.reshape(shape) if shape != () else float(v[0])


# ------------------------------------------------------------------ combinatorics
def compositions(n):
    """All compositions of n (ordered tuples of positive ints summing to n)."""
    if n == 0:
        return [()]
    out = []
    for first in range(1, n + 1):
        for rest in compositions(n - first):
            out.append((first,) + rest)
    return out


def perms(n):
    return list(itertools.permutations(range(n)))


def perm_is_involution(p):
    return all(p[p[i]] == i for i in range(len(p)))


# ------------------------------------------------------------------ matrices
def zeros(m, n, dtype=float):
    return np.zeros((m, n, 4), dtype=dtype)


def diag_real(vals, m=None, n=None):
    vals = list(vals)
    m = len(vals) if m is None else m
    n = len(vals) if n is None else n
    D = zeros(m, n)
    for t, v in enumerate(vals):
        if t < m and t < n:
            D[t, t, 0] = v
    return D


def monomial(perm, phases, dtype=np.int64):
    """Matrix with M[i, perm[i]] = phases[i] (signed units): exactly unitary."""
    n = len(perm)
    M = np.zeros((n, n, 4), dtype=dtype)
    for i in range(n):
        M[i, perm[i]] = phases[i]
    return M


def perm_matrix(perm):
    n = len(perm)
    return monomial(perm, [ONE] * n)


def all_monomials(n):
    for p in perms(n):
        for ph in itertools.product(range(8), repeat=n):
            yield p, ph, monomial(p, [SIGNED_UNITS[t] for t in ph])


def householder(w):
    """I - 2 w w^H / ||w||^2 for a quaternion column (n,1,4) — unitary to rounding."""
    w = np.asarray(w, float)
    n = w.shape[0]
    nn = O.fro(w) ** 2
    if nn == 0:
        return O.qeye(n)
    return O.qeye(n) - 2.0 * O.qmatmul(w, O.qH(w)) / nn


def unitary(kind, n, fill: Fill | None = None, variant: int = 0):
    """kind in {'id','mono','hh'} — enumerated unitary factor of size n."""
    if kind == "id" or n == 0:
        return O.qeye(n)
    if kind == "mono":
        if n <= 6:
            ps = perms(n)
            p = ps[(variant * 7 + 1) % len(ps)]
        else:  # never enumerate n! permutations for larger n: a fixed cyclic shift
            sh = 1 + (variant % (n - 1))
            p = tuple((i + sh) % n for i in range(n))
        ph = [SIGNED_UNITS[(variant * 3 + 2 * i + 1) % 8] for i in range(n)]
        return monomial(p, ph).astype(float)
    if kind == "hh":
        assert fill is not None
        Q = O.qeye(n)
        for _ in range(2):
            w = fill.quat(n, 1)
            if O.fro(w) == 0:
                w[0, 0, 0] = 1.0
            Q = O.qmatmul(householder(w), Q)
        # one extra phase so that the result is not Hermitian
        ph = [SIGNED_UNITS[(variant + 3 * i + 2) % 8] for i in range(n)]
        return O.qmatmul(Q, monomial(tuple(range(n)), ph).astype(float))
    raise ValueError(kind)


def with_spectrum(Uq, s, Vq):
    """U diag(s) V^H of shape (m,n) with m=U.shape[0], n=V.shape[0]."""
    m, n = Uq.shape[0], Vq.shape[0]
    D = diag_real(s, m, n)
    return O.qmatmul(O.qmatmul(Uq, D), O.qH(Vq))


def herm_with_spectrum(Vq, lam):
    n = Vq.shape[0]
    A = O.qmatmul(O.qmatmul(Vq, diag_real(lam, n, n)), O.qH(Vq))
    A = 0.5 * (A + O.qH(A))  # bitwise Hermitian
    for i in range(n):
        A[i, i, 1:] = 0.0
    return A


def spectrum_from_composition(comp, menu):
    """comp=(c1,c2,..) cluster sizes, menu values descending -> list of values."""
    out = []
    for c, v in zip(comp, menu):
        out += [v] * c
    return out


def pow2(e):
    return math.ldexp(1.0, e)


# ------------------------------------------------------------------ component-support masks / special matrices
COMPONENT_MASKS = [m for m in range(1, 16)]  # bit t set <=> component t (w,x,y,z) may be non-zero


def mask_name(mask):
    return "".join(n for t, n in enumerate("1ijk") if (mask >> t) & 1)


def apply_component_mask(A, mask):
    """Zero every quaternion component not in the mask (entries stay in a fixed real subspace of H)."""
    A = np.array(A, dtype=float, copy=True)
    for t in range(4):
        if not (mask >> t) & 1:
            A[..., t] = 0.0
    return A


SPECIAL_KINDS = ["cyclic_shift", "cyclic_shift_q", "exchange", "lower_shift", "upper_shift", "companion", "ones", "hadamard_like", "path_laplacian"]


def special(kind, n, fill=None):
    """Structured n x n matrices that random draws never produce."""
    A = np.zeros((n, n, 4))
    if kind == "cyclic_shift":
        for i in range(n):
            A[(i + 1) % n, i, 0] = 1.0
    elif kind == "cyclic_shift_q":
        for i in range(n):
            A[(i + 1) % n, i] = SIGNED_UNITS[(2 * i + 3) % 8]
    elif kind == "exchange":
        for i in range(n):
            A[i, n - 1 - i, 0] = 1.0
    elif kind == "lower_shift":
        for i in range(n - 1):
            A[i + 1, i, 0] = 1.0
    elif kind == "upper_shift":
        for i in range(n - 1):
            A[i, i + 1] = SIGNED_UNITS[(2 * i + 1) % 8]
    elif kind == "companion":
        for i in range(n - 1):
            A[i + 1, i, 0] = 1.0
        for i in range(n):
            A[i, n - 1] = [0.5 * (i + 1), 0.25 * ((i % 2) * 2 - 1), 0.0, 0.5 if i == 0 else 0.0]
    elif kind == "ones":
        A[..., 0] = 1.0
    elif kind == "hadamard_like":
        # Hermitian, eigenvectors (1,...,1) [non-dominant] and alternating signs [dominant]
        one = np.ones((n, 1))
        alt = np.array([[(-1.0) ** i] for i in range(n)])
        M = 1.0 * (one @ one.T) / n + 3.0 * (alt @ alt.T) / n
        A[..., 0] = M
    elif kind == "path_laplacian":
        for i in range(n):
            A[i, i, 0] = 2.0 if 0 < i < n - 1 else 1.0
            if i + 1 < n:
                A[i, i + 1, 0] = A[i + 1, i, 0] = -1.0
        if n == 1:
            A[0, 0, 0] = 1.0
    else:
        raise ValueError(kind)
    return A
