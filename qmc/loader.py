"""Load the code under test from the current working tree of the repository.

Nothing is built and no installed copy is used: the repository root (VERIF_REPO, default
/repo) is put at the *front* of sys.path, so that the editable-install .pth entry (which
points at /repo and sits at the end of sys.path) can never win over a scratch copy.

Two import styles exist in the repository and both are supported:
  flat     sys.path = [repo/quatica, repo, ...]; ``import utils, solver, decomp.qsvd``
           (this is how the repository's own tests import the library)
  package  sys.path = [repo, ...]; ``import quatica.utils`` ...
"""
from __future__ import annotations

import importlib
import os
import sys
import types

REPO = os.environ.get("VERIF_REPO", "/repo")

_FLAT = {
    "utils": "utils",
    "solver": "solver",
    "data_gen": "data_gen",
    "tensor": "tensor",
    "qslst": "qslst",
    "qsvd": "decomp.qsvd",
    "LU": "decomp.LU",
    "eigen": "decomp.eigen",
    "tridiag": "decomp.tridiagonalize",
    "hess": "decomp.hessenberg",
    "schur": "decomp.schur",
    "decomp": "decomp",
}

_loaded: dict[str, types.SimpleNamespace] = {}


def repo_root() -> str:
    return REPO


def _prep_path(style: str) -> None:
    want = [os.path.join(REPO, "quatica"), REPO] if style == "flat" else [REPO]
    for p in reversed(want):
        while p in sys.path:
            sys.path.remove(p)
        sys.path.insert(0, p)


def load(style: str = "flat") -> types.SimpleNamespace:
    """Return a namespace with the library modules (utils, solver, qsvd, LU, ...)."""
    if style in _loaded:
        return _loaded[style]
    _prep_path(style)
    ns = types.SimpleNamespace()
    for short, mod in _FLAT.items():
        name = mod if style == "flat" else "quatica." + mod
        m = importlib.import_module(name)
        f = getattr(m, "__file__", "") or ""
        if not os.path.realpath(f).startswith(os.path.realpath(REPO) + os.sep):
            raise RuntimeError(f"module {name} loaded from {f}, not from {REPO}")
        setattr(ns, short, m)
    ns.style = style
    _loaded[style] = ns
    return ns


def load_app_script() -> types.ModuleType:
    """Import applications/image_deblurring/script_image_deblurring.py (flat style)."""
    load("flat")
    d = os.path.join(REPO, "applications", "image_deblurring")
    if d not in sys.path:
        sys.path.insert(0, d)
    os.environ.setdefault("MPLBACKEND", "Agg")
    m = importlib.import_module("script_image_deblurring")
    if not os.path.realpath(m.__file__).startswith(os.path.realpath(REPO) + os.sep):
        raise RuntimeError("deblurring script loaded from the wrong place")
    return m
