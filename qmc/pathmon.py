"""PathMonitor: observe decision lines of library functions from outside (sys.monitoring,
Python 3.12) — no source change.  Lines are located by regex on the function's source at
run time; if a pattern no longer matches, the label is reported as 'unmonitored'.
"""
from __future__ import annotations

import inspect
import re
import sys

TOOL_ID = 3  # sys.monitoring tool slot used by qmc


class PathMonitor:
    def __init__(self, func, patterns: dict, capture=()):
        """patterns: label -> regex matched against single source lines of func.
        capture: names of local variables recorded with each hit."""
        self.func = func
        self.code = func.__code__
        self.capture = tuple(capture)
        self.events = []
        self.lines = {}
        self.unmonitored = []
        try:
            src, start = inspect.getsourcelines(func)
        except (OSError, TypeError):
            src, start = [], 0
        for label, pat in patterns.items():
            rx = re.compile(pat)
            hits = [start + i for i, l in enumerate(src) if rx.search(l)]
            if len(hits) >= 1:
                for h in hits:
                    self.lines[h] = label
            else:
                self.unmonitored.append(label)
        self.active = False

    def _cb(self, code, line):
        label = self.lines.get(line)
        if label is None:
            return sys.monitoring.DISABLE
        fr = sys._getframe(1)
        vals = tuple(fr.f_locals.get(n) for n in self.capture)
        self.events.append((label,) + tuple(int(v) if isinstance(v, (int,)) else v for v in vals))
        return None

    def __enter__(self):
        mon = sys.monitoring
        try:
            mon.use_tool_id(TOOL_ID, "qmc")
        except ValueError:
            pass
        mon.register_callback(TOOL_ID, mon.events.LINE, self._cb)
        mon.set_local_events(TOOL_ID, self.code, mon.events.LINE)
        mon.restart_events()
        self.active = True
        self.events = []
        return self

    def __exit__(self, *exc):
        mon = sys.monitoring
        mon.set_local_events(TOOL_ID, self.code, 0)
        mon.register_callback(TOOL_ID, mon.events.LINE, None)
        try:
            mon.free_tool_id(TOOL_ID)
        except ValueError:
            pass
        self.active = False
        return False
